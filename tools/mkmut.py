#!/usr/bin/env python3
"""tools/mkmut.py <name> <file relative to /repo> <old> <new> [<props comma-separated>]
Writes mutants/<name>.patch (unified diff, -p1) replacing the single occurrence of <old> by <new>."""
import difflib, os, sys, json
name, rel, old, new = sys.argv[1:5]
props = sys.argv[5] if len(sys.argv) > 5 else ""
old = old.encode().decode("unicode_escape"); new = new.encode().decode("unicode_escape")
src = open(os.path.join("/repo", rel)).read()
if src.count(old) != 1:
    sys.exit("occurrences of old text: %d" % src.count(old))
dst = src.replace(old, new)
diff = "".join(difflib.unified_diff(src.splitlines(True), dst.splitlines(True), "a/" + rel, "b/" + rel))
here = os.path.dirname(os.path.dirname(os.path.abspath(__file__)))
os.makedirs(os.path.join(here, "mutants"), exist_ok=True)
open(os.path.join(here, "mutants", name + ".patch"), "w").write(diff)
idx = os.path.join(here, "mutants", "INDEX.json")
d = json.load(open(idx)) if os.path.exists(idx) else {}
d[name] = {"file": rel, "props": [p for p in props.split(",") if p], "old": old, "new": new}
json.dump(d, open(idx, "w"), indent=1, sort_keys=True)
print("wrote mutants/%s.patch" % name)
