#!/bin/bash
# tools/benignall.sh [tier] [jobs] : every behaviour-preserving change in benign/ against all 20 checks; each must end HELD (rc 0).
cd "$(dirname "$0")/.."
tier="${1:-quick}"; jobs="${2:-4}"
out="$(mktemp -d /tmp/vmon-benignall.XXXXXX)"
one() { VMON_JOBS=2 tools/benigncheck.sh "benign/$1.diff" "$2" > "$3/$1.txt" 2>&1; if grep -q " rc=[12]" "$3/$1.txt" || ! grep -q "122 passed" "$3/$1.txt"; then echo "ALARM $1"; else echo "quiet $1 ($(grep -c 'rc=0' "$3/$1.txt") checks)"; fi; }
export -f one
ls benign/*.diff | xargs -n1 basename | sed 's/\.diff$//' | xargs -P "$jobs" -I{} bash -c "one {} $tier $out"
for f in "$out"/*.txt; do echo "=== $(basename "$f" .txt)"; grep -v "rc=0" "$f"; done > benign/LAST_RUN.txt
rm -rf "$out"
echo "details: benign/LAST_RUN.txt"
