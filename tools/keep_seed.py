#!/usr/bin/env python3
"""tools/keep_seed.py <source dir> <seed id> <property[,property]> "<caught by: ...>" ["<missed by / notes>"]
Archives a confirmed seeded change as /verif/seeded/<id>/ (patch.diff, demonstration, meta.json)."""
import json, os, shutil, sys
src, sid, props, caught = sys.argv[1:5]
notes = sys.argv[5] if len(sys.argv) > 5 else ""
here = os.path.dirname(os.path.dirname(os.path.abspath(__file__)))
dst = os.path.join(here, "seeded", sid)
os.makedirs(dst, exist_ok=True)
shutil.copy(os.path.join(src, "patch.diff"), os.path.join(dst, "patch.diff"))
for f in os.listdir(src):
    if f.startswith("demo"):
        shutil.copy(os.path.join(src, f), os.path.join(dst, f))
meta = {}
if os.path.exists(os.path.join(src, "meta.json")):
    try:
        meta = json.load(open(os.path.join(src, "meta.json")))
    except Exception:
        meta = {"raw_meta": open(os.path.join(src, "meta.json")).read()}
meta.update({"seed_id": sid, "breaks_properties": props.split(","), "origin": "independent sub-agent given only the property text and a scratch worktree of /repo",
             "confirmed_by_me": "applied patch.diff to a scratch copy of /repo HEAD; pinned suite there: 122 passed, 12 skipped; demonstration exits 1 (FAIL) with the change and 0 (PASS) without (tools/seedcheck.sh)",
             "checks_run": caught, "notes": notes})
json.dump(meta, open(os.path.join(dst, "meta.json"), "w"), indent=1)
print("kept", dst)
