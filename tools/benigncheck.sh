#!/bin/bash
# tools/benigncheck.sh <patch file> [tier] [prop ...]
# Applies a behaviour-preserving change to a scratch copy of /repo's HEAD, runs the pinned suite there, then the given checks
# (default: all 20) against the copy. Every check must end HELD (rc=0): rc=1 is a false alarm, rc=2 a monitor that lost its footing.
patch="$(readlink -f "$1")"; tier="${2:-quick}"; shift 2
here="$(cd "$(dirname "${BASH_SOURCE[0]}")/.." && pwd)"
props="${@:-C01 C02 C03 C04 C05 C06 C07 C08 C09 C10 C11 C12 C13 C14 C15 C16 C17 C18 C19 C20}"
mut="$(mktemp -d /tmp/vmon-benign.XXXXXX)"
trap 'rm -rf "$mut"' EXIT
rsync -a --exclude .git --exclude __pycache__ /repo/ "$mut/"
(cd "$mut" && patch -p1 -s --no-backup-if-mismatch < "$patch") || { echo "PATCH-DOES-NOT-APPLY $patch"; exit 3; }
echo "tests(with change): $(cd "$mut" && /venv/bin/python -m pytest -q -p no:cacheprovider --timeout=900 2>&1 | tail -1)"
bad=0
for p in $props; do
  out="$(VMON_REPO="$mut" VMON_JOBS="${VMON_JOBS:-4}" "$here/vcheck" "$p" --tier "$tier" --no-evidence 2>&1)"; rc=$?
  if [[ $rc -ne 0 ]]; then
    bad=1
    echo "$p rc=$rc :: $(echo "$out" | grep -E '^(VIOLATION|INCONCLUSIVE)' | head -1 | cut -c1-200)"
    echo "$out" | grep -E '^  (violation|reason|harness)' | head -3 | cut -c1-300
  else
    echo "$p rc=0"
  fi
done
exit $bad
