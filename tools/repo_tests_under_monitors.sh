#!/bin/bash
# Runs the repository's pinned test-suite with the event recorder and all contracts attached (vmon.pytest_plugin).
# A contract that fires here is either too strict for what correct callers do, or a defect the tests do not assert.
here="$(cd "$(dirname "${BASH_SOURCE[0]}")/.." && pwd)"
cd "${VMON_REPO:-/repo}" && PYTHONHASHSEED=0 PYTHONPATH="$here:$here/.deps" /venv/bin/python -m pytest -p vmon.pytest_plugin -q -p no:cacheprovider --timeout=900 "$@" 2>&1 | grep -E "vmon:|C[0-9]+\.|passed|failed|x[0-9]+  e\.g\." ; rm -f test-01.cif
