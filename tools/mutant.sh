#!/bin/bash
# tools/mutant.sh <patch-file | revert:<commit>> <tier> <prop> [<prop> ...]
# Copies /repo to a scratch dir, applies the change there, optionally runs the pinned tests (RUN_TESTS=1),
# runs the named checks against the copy (evidence untouched) and removes the copy.
set -u
here="$(cd "$(dirname "${BASH_SOURCE[0]}")/.." && pwd)"
patch="$1"; tier="$2"; shift 2
[[ "$patch" != revert:* && "$patch" != /* ]] && patch="$PWD/$patch"
scratch="$(mktemp -d /tmp/vmon-mut.XXXXXX)"
trap 'rm -rf "$scratch"' EXIT
rsync -a --exclude .git --exclude '__pycache__' /repo/ "$scratch/"
if [[ "$patch" == revert:* ]]; then
  git -C /repo show "${patch#revert:}" -- mofun | (cd "$scratch" && patch -R -p1 -s) || { echo "MUTANT-APPLY-FAILED"; exit 3; }
else
  (cd "$scratch" && patch -p1 -s < "$patch") || { echo "MUTANT-APPLY-FAILED"; exit 3; }
fi
if [[ "${RUN_TESTS:-0}" == 1 ]]; then
  (cd "$scratch" && /venv/bin/python -m pytest -q -p no:cacheprovider --timeout=900 -x 2>&1 | tail -1)
fi
rc_all=0
for p in "$@"; do
  out="$(VMON_REPO="$scratch" "$here/vcheck" "$p" --tier "$tier" --no-evidence 2>&1)"; rc=$?
  echo "$p rc=$rc :: $(echo "$out" | grep -E 'VIOLATION|INCONCLUSIVE|HELD|KNOWN' | head -2 | tr '\n' ' ')"
  echo "$out" | grep -E '^  violation' | head -2
done
