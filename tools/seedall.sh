#!/bin/bash
# tools/seedall.sh [tier] [jobs]: re-runs every archived seeded change against the checks recorded for it (the properties it
# breaks plus every check named in its "checks_run" note) and lists the seeds that no check reports any more.
cd "$(dirname "$0")/.."
tier="${1:-quick}"; jobs="${2:-4}"
out="$(mktemp -d /tmp/vmon-seedall.XXXXXX)"
one() {
  d="$1"; tier="$2"; out="$3"
  props=$(python3 -c "
import json,re
m=json.load(open('$d/meta.json'))
p=list(m['breaks_properties'])+re.findall(r'C[0-9][0-9]', m.get('checks_run',''))
seen=[]
[seen.append(x) for x in p if x not in seen]
print(' '.join(seen))")
  r="$(tools/seedcheck.sh "$PWD/$d" "$tier" $props | grep -E " rc=|demo:|tests" | cut -c1-160)"
  name="$(basename $d)"
  { echo "=== $name [$props]"; echo "$r"; } > "$out/$name.txt"
  if echo "$r" | grep -q " rc=1 "; then echo "caught $name"; else echo "NOT-CAUGHT $name"; fi
}
export -f one
ls -d seeded/*/ | xargs -P "$jobs" -I{} bash -c "one {} $tier $out"
cat "$out"/*.txt > seeded/LAST_REGRESSION.txt
rm -rf "$out"
echo "details: seeded/LAST_REGRESSION.txt"
