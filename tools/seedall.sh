#!/bin/bash
# tools/seedall.sh [tier]: re-runs every archived seeded change against the properties it is recorded to break
cd "$(dirname "$0")/.."
tier="${1:-quick}"
for d in seeded/*/; do
  props=$(python3 -c "import json;print(' '.join(json.load(open('$d/meta.json'))['breaks_properties']))")
  echo "=== $(basename $d) [$props]"
  tools/seedcheck.sh "$PWD/$d" "$tier" $props | grep -E " rc=|demo:|tests" | cut -c1-160
done
