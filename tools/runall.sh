#!/bin/bash
# tools/runall.sh <tier> [seed ...]   - runs every check, prints one line each; evidence is only written for the last seed... (use --no-evidence for sweeps: NOEV=1)
tier="${1:-quick}"; shift
seeds="${@:-0}"
cd "$(dirname "$0")/.."
for s in $seeds; do
  for p in C01 C02 C03 C04 C05 C06 C07 C08 C09 C10 C11 C12 C13 C14 C15 C16 C17 C18 C19 C20; do
    t0=$(date +%s.%N)
    out=$(VERIF_SEED=$s ./vcheck $p --tier $tier ${NOEV:+--no-evidence} 2>&1); rc=$?
    t1=$(date +%s.%N)
    printf "seed=%s %s rc=%d %.1fs %s\n" "$s" "$p" "$rc" "$(echo "$t1 - $t0" | bc)" "$(echo "$out" | grep -E '^(VIOLATION|INCONCLUSIVE|  violation)' | head -2 | cut -c1-220 | tr '\n' '|')"
  done
done
