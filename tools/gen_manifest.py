#!/usr/bin/env python3
"""Regenerates /verif/MANIFEST.json from the table below. A property is listed under `checks`
only if its check module exists (vmon/checks/<id>.py); anything else goes to not_applicable
with the reason given here, so the manifest is valid at every commit."""
import json
import os
import subprocess

HERE = os.path.dirname(os.path.dirname(os.path.abspath(__file__)))

COMMON_NOTE = ("Trusted base: numpy/scipy/PyCifRW/ASE native and third-party code, the harness's own oracles "
               "(vmon/oracle/*), CPython. The verdict is 'held on the executions observed'; generators are seeded "
               "(VERIF_SEED) and finite. ")

P = {
 "C01": ("icontract postcondition on the real find_pattern_in_structure (rotation-witness check) over planted-structure workloads with RNG-schedule injection",
         "Every search result produced by the real function in a hostile generated workload (planted copies, mirror decoys, near-miss decoys, boundary-straddling copies, all hint classes, RNG schedules) is re-derived from the returned rotation: indices, elements, lattice images and the rigid-motion witness. Exploration is the right level: the property quantifies over a continuous input space; a monitor over thousands of diverse executions is what this family offers.",
         "4 C01"),
 "C02": ("offline set comparison of the observed match list against an independent brute-force matcher (three-way clear/gray/non-occurrence split)",
         "Each generated structure is searched by the real code and by an independent backtracking matcher; clear occurrences must be reported, clear non-occurrences never, duplicates never. Classes (cell shape x faces crossed x pattern class x decoys) are counted and required.",
         "4 C02"),
 "C03": ("metamorphic monitor: recorded match sets of the real search under shift/permutation/pattern motion/hints/RNG schedule/supercell compared after renaming",
         "Relations between pairs of observed executions on synthetic structures and the repository's real MOF files.",
         "4 C03"),
 "C04": ("offline diff of recorded replace events keyed by unique atom ids (charges) against the set of found matches and the selection (observed draw, or read off the result when the draw is made in a way the harness does not see)",
         "Every replacement's recorded history (find result, sample draw, extend/delete calls, input snapshots) is checked atom-by-atom.",
         "4 C04"),
 "C05": ("rigid-fit oracle over observed correspondences (hooked find result; inserted atoms read off the returned structure by their ids and assigned to matches by position; observed insertion calls cross-checked as a set), in-cell check, joint-motion metamorphic relation",
         "Placement of inserted atoms is verified against the frame of the matched pattern modulo the lattice for orthorhombic and triclinic cells.",
         "4 C05"),
 "C06": ("reference-model monitor: resolved model (type ids resolved to coefficient text) predicted by a small executable model and compared after each real replacement, also after a LAMMPS write + independent read",
         "Chains of replacements on structures with pre-existing typed terms; model vs real after every step.",
         "4 C06"),
 "C07": ("pure-function oracle over recorded find/sample events (scripted and observed draws; random-generator state fingerprints tell whether an error depended on a draw) deciding raise / no-raise, plus conservation of atom ids",
         "Overlap structures (chains, stars, rings) in every sharing combination; expected outcome computed from observed matches.",
         "4 C07"),
 "C08": ("history monitor over two-step replacement sequences (self-replacement, A->B->A) on synthetic and real MOF files",
         "No-op and reversibility relations on recorded before/after states.",
         "4 C08"),
 "C09": ("invariant at the exit of constructors/mutators + reference-model monitor over bounded-exhaustive and random operation histories + LAMMPS write/independent read after each step",
         "Operation sequences (delete, extend, replicate, copy, subset, replace) including 'empty a kind then add to it'.",
         "4 C09"),
 "C10": ("reference-model monitor (delete) keyed by unique ids, exhaustive over all subsets and listing orders for small structures; postcondition contract on every __delitem__",
         "All non-empty subsets of small generated structures in sorted, reversed and shuffled listing; pop().",
         "4 C10"),
 "C11": ("reference-model monitor (extend) keyed by unique ids, exhaustive identity maps for small sizes",
         "All partial injections for small sizes, default merging, explicit offsets, repeated extension, extra columns.",
         "4 C11"),
 "C12": ("reference-model monitor (replicate): multiset of (id, image) with positions, resolved types, cell rows; input snapshot equality",
         "All factor triples in {1..3}^3 (thorough {1..4}^3) on orthorhombic, LAMMPS-triclinic and rotated cells with all term kinds.",
         "4 C12"),
 "C13": ("independent LAMMPS-data reader (written from the format description) + ASE reader as second opinion on every file the real writer produces; read-back and byte-identity of the second write",
         "Generated structures in both atom styles and cell classes; the writer is judged by an independent reader, then the reader against the writer.",
         "4 C13"),
 "C14": ("postcondition contract on the real guess_elements_from_masses + independent nearest-element oracle, exhaustive over the mass table and every tolerance boundary; end-to-end through save/load_lmpdat",
         "The space is finite and enumerated completely for three tolerances (exhaustive: true); load_lmpdat's documented fallback is observed on both paths.",
         "4 C14"),
 "C15": ("round-trip monitor: token-wise CIF comparison, field-by-field comparison of re-read structures, ASE as independent reader, token-level rewriting for (su)/Cartesian/out-of-cell/non-P1 variants",
         "Generated structures with all term kinds and extra columns, both coordinate modes, both cell classes.",
         "4 C15"),
 "C16": ("harness-written CML documents compared field-by-field with the loaded Atoms; path vs file-object vs Atoms.load",
         "Generated documents: any id scheme, empty bond lists, arbitrary coordinates.",
         "4 C16"),
 "C17": ("independent 125-image brute-force oracle + metamorphic shift/permutation relations on the real detect_bonds",
         "All element pairs of the radius table at cutoff -/+ 1e-3 directly and through face/edge/corner images; random structures in no/orthorhombic/triclinic cells.",
         "4 C17"),
 "C18": ("independent re-implementation of the UFF functional forms compared with the real bond/angle/dihedral/pair functions; reversal symmetry; sanity postconditions",
         "Pairs exhaustive; triples stratified (thorough: all 221^3); quadruples exhaustive over the stated quotient plus random full quadruples.",
         "4 C18"),
 "C19": ("brute-force enumeration oracle for angles/dihedrals, canonical-sequence typing oracle, invariance under renaming / list permutation / bond flips",
         "Random graphs without 3-rings, type assignments from the whole table and from small pools, exclusion sets.",
         "4 C19"),
 "C20": ("differential monitor: CLI run in-process (CliRunner) vs the API pipeline under equal seeds, byte comparison of outputs, spy on the library calls made by the CLI",
         "Generated option sets and the documented example command lines.",
         "4 C20"),
}


def main():
    checks, na = [], []
    for pid in sorted(P):
        tech, text, ref = P[pid]
        if os.path.exists(os.path.join(HERE, "vmon", "checks", pid.lower() + ".py")):
            checks.append({
                "property_id": pid,
                "quick_cmd": "./vcheck %s --tier quick" % pid,
                "thorough_cmd": "./vcheck %s --tier thorough" % pid,
                "evidence_file": "/verif/evidence/%s.json" % pid,
                "replay_cmd_template": "./vcheck %s --replay {path}" % pid,
                "engine": "vmon",
                "level_claimed": {"category": "exploration", "text": text, "design_ref": "DESIGN.md section " + ref},
                "level_note": COMMON_NOTE,
                "technique": "runtime monitoring: " + tech,
            })
        else:
            na.append({"property_id": pid, "reason": "check not built yet in this revision (planned: %s)" % tech})
    commits = subprocess.run(["git", "-C", "/repo", "log", "--format=%h %s", "--grep=^hook:"], capture_output=True, text=True).stdout.strip().split("\n")
    m = {
        "version": 1,
        "setup_cmd": "./setup.sh",
        "hooks": {
            "guard": "MOFUN_VERIF",
            "enable": "No source hooks exist: all monitors are attached from the harness by re-binding names at import time (vmon/events.py, vmon/contracts.py). ./vcheck exports MOFUN_VERIF=1 for uniformity; the repository never reads it.",
            "baseline_off_cmd": "cd /repo && /venv/bin/python -m pytest -ra -q -p no:cacheprovider --timeout=900 --continue-on-collection-errors",
            "source_commits": [c.split()[0] for c in commits if c],
            "add_only": True,
        },
        "engines": [{"name": "vmon", "path": "/verif/vmon", "serves_properties": [c["property_id"] for c in checks],
                     "kind_free_text": "Python runtime-monitoring harness: event recorder and icontract contracts re-bound onto the real mofun functions, reference models, independent readers/oracles, seeded hostile workload generators, sys.monitoring anchor-line coverage"}],
        "checks": checks,
        "not_applicable": na,
        "notes": "Exit codes: 0 held, 1 VIOLATION, 2 INCONCLUSIVE (harness could not observe enough; never folded into held). Genuine defects repaired in /repo are recorded as 'fixed' in known_findings.json; one known finding (pair table shorter than type table on merge) is reported as KNOWN-FINDING by C06/C09.",
    }
    with open(os.path.join(HERE, "MANIFEST.json"), "w") as f:
        json.dump(m, f, indent=1)
    print("MANIFEST: %d checks, %d not yet claimed" % (len(checks), len(na)))


if __name__ == "__main__":
    main()
