#!/bin/bash
# tools/seedcheck.sh <dir with patch.diff + demo.py> <tier> <prop> [<prop>...]
# Confirms a seeded change independently: applies to a scratch copy of /repo's HEAD, pinned tests, demo with/without, then our checks.
dir="$1"; tier="$2"; shift 2
here="$(cd "$(dirname "${BASH_SOURCE[0]}")/.." && pwd)"
clean="$(mktemp -d /tmp/vmon-seed-clean.XXXXXX)"; mut="$(mktemp -d /tmp/vmon-seed-mut.XXXXXX)"
trap 'rm -rf "$clean" "$mut"' EXIT
rsync -a --exclude .git --exclude __pycache__ /repo/ "$clean/"; rsync -a --exclude .git --exclude __pycache__ /repo/ "$mut/"
(cd "$mut" && patch -p1 -s --no-backup-if-mismatch < "$dir/patch.diff") || { echo "PATCH-DOES-NOT-APPLY"; exit 3; }
echo "tests(with change): $(cd "$mut" && /venv/bin/python -m pytest -q -p no:cacheprovider --timeout=900 2>&1 | tail -1)"
demo="$dir/demo.py"; [[ -f "$demo" ]] || demo="$(ls $dir/demo* | head -1)"
(cd "$mut" && timeout 900 /venv/bin/python "$demo" > "$mut/.demo.out" 2>&1); rc1=$?
(cd "$clean" && timeout 900 /venv/bin/python "$demo" > "$clean/.demo.out" 2>&1); rc0=$?
echo "demo: with change rc=$rc1 ($(grep -E 'PASS|FAIL' "$mut/.demo.out" | head -1 | cut -c1-120)) ; without rc=$rc0 ($(grep -E 'PASS|FAIL' "$clean/.demo.out" | head -1 | cut -c1-80))"
for p in "$@"; do
  out="$(VMON_REPO="$mut" "$here/vcheck" "$p" --tier "$tier" --no-evidence 2>&1)"; rc=$?
  echo "$p rc=$rc :: $(echo "$out" | grep -E '^(VIOLATION|INCONCLUSIVE|HELD)' | head -1 | cut -c1-160)"
  echo "$out" | grep -E '^  violation' | head -2 | cut -c1-260
done
