#!/bin/bash
# Validates the monitors against the kill-set in mutants/*.patch (see mutants/INDEX.json for the owning properties).
# For each patch: copy /repo to a scratch dir outside /repo and /verif, apply, run the pinned test suite there
# (a mutant that fails it is not "realistic": recorded as such), run the owning properties' quick checks against the
# copy (VMON_REPO=<copy>, evidence untouched), record the outcome, remove the copy.
#   ./selftest_mutants.sh [name-glob]      results: mutants/RESULTS.json + mutants/RESULTS.md
here="$(cd "$(dirname "${BASH_SOURCE[0]}")" && pwd)"; cd "$here"
glob="${1:-*}"
jobs="${SELFTEST_JOBS:-4}"
tmpres="$(mktemp -d /tmp/vmon-selftest.XXXXXX)"
one() {
  name="$1"
  props=$(python3 -c "import json;print(' '.join(json.load(open('mutants/INDEX.json')).get('$name',{}).get('props',[])))")
  scratch="$(mktemp -d /tmp/vmon-mut.XXXXXX)"
  rsync -a --exclude .git --exclude '__pycache__' /repo/ "$scratch/"
  if ! (cd "$scratch" && patch -p1 -s --no-backup-if-mismatch < "$here/mutants/$name.patch") >/dev/null 2>&1; then
    echo "{\"name\":\"$name\",\"applies\":false}" > "$tmpres/$name.json"; rm -rf "$scratch"; return
  fi
  tests=$(cd "$scratch" && /venv/bin/python -m pytest -q -p no:cacheprovider --timeout=900 -x 2>&1 | tail -1)
  pass=false; [[ "$tests" == *" passed"* && "$tests" != *"failed"* && "$tests" != *"error"* ]] && pass=true
  res=""
  for p in $props; do
    out="$(VMON_REPO="$scratch" VMON_JOBS=2 ./vcheck "$p" --tier quick --no-evidence 2>&1)"; rc=$?
    first="$(echo "$out" | grep -E '^  violation' | head -1 | cut -c1-200 | sed 's/"/\x27/g; s/\\/\//g')"
    res="$res{\"property\":\"$p\",\"rc\":$rc,\"first\":\"$first\"},"
  done
  echo "{\"name\":\"$name\",\"applies\":true,\"tests_pass\":$pass,\"tests\":\"$tests\",\"checks\":[${res%,}]}" > "$tmpres/$name.json"
  rm -rf "$scratch"
}
export -f one; export here tmpres
ls mutants/$glob.patch 2>/dev/null | xargs -n1 basename | sed 's/\.patch$//' | xargs -P "$jobs" -I{} bash -c 'one {}'
python3 - "$tmpres" <<'PY'
import json, glob, sys, os
rows = []
for f in sorted(glob.glob(os.path.join(sys.argv[1], "*.json"))):
    try:
        rows.append(json.load(open(f)))
    except Exception as e:
        rows.append({"name": os.path.basename(f)[:-5], "applies": None, "parse_error": str(e)})
old = {}
if os.path.exists("mutants/RESULTS.json"):
    old = {r["name"]: r for r in json.load(open("mutants/RESULTS.json"))}
for r in rows:
    old[r["name"]] = r
rows = [old[k] for k in sorted(old) if os.path.exists("mutants/%s.patch" % k)]
json.dump(rows, open("mutants/RESULTS.json", "w"), indent=1)
idx = json.load(open("mutants/INDEX.json"))
with open("mutants/RESULTS.md", "w") as f:
    f.write("# Kill-set results (quick tier, seed 0)\n\n| mutant | pinned tests | owning checks (rc: 1 = VIOLATION, 0 = held, 2 = inconclusive) | first report |\n|---|---|---|---|\n")
    k = s = u = 0
    for r in rows:
        if not r.get("applies"):
            f.write("| %s | does not apply | | |\n" % r["name"]); continue
        caught = any(c["rc"] == 1 for c in r["checks"])
        if r["tests_pass"]:
            k += caught; s += (not caught)
        else:
            u += 1
        first = next((c["first"] for c in r["checks"] if c["rc"] == 1), "")
        f.write("| %s | %s | %s | %s |\n" % (r["name"], "pass" if r["tests_pass"] else "FAIL (not realistic)", ", ".join("%s:%d" % (c["property"], c["rc"]) for c in r["checks"]), first.replace("|", "/")))
    f.write("\nrealistic mutants (pinned tests pass): %d caught, %d survived; %d mutants fail the pinned tests.\n" % (k, s, u))
print(open("mutants/RESULTS.md").read()[-400:])
PY
rm -rf "$tmpres"
