#!/bin/bash
# Offline setup: put icontract beside the repository's interpreter (git-ignored /verif/.deps).
# Checks re-do this themselves if .deps is missing and fall back to a built-in stand-in if the
# wheelhouse is unavailable, so a failure here is not fatal.
here="$(cd "$(dirname "${BASH_SOURCE[0]}")" && pwd)"
cd "$here"
PY="${VMON_PYTHON:-/venv/bin/python}"
if ! PYTHONPATH="$here/.deps" "$PY" -c "import icontract" 2>/dev/null; then
  "$PY" -m pip install -q --no-index --find-links /opt/veriftools/wheels --target "$here/.deps" icontract 2>&1 | tail -2
fi
PYTHONPATH="$here:$here/.deps" "$PY" -c "
from vmon import boot
boot.boot()
import mofun
print('setup ok: mofun from', mofun.__file__, '| icontract', getattr(boot.ICONTRACT,'__version__',None))
"
