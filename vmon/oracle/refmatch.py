"""Independent brute-force pattern matcher (backtracking over atoms x 27 images, optimal proper-rotation
fit per candidate) with a three-way classification of every candidate atom group:

  clear occurrence      the proper Kabsch fit brings every atom within 0.12*atol (max norm residual)
  clear non-occurrence  the minimum RMS over proper rigid motions exceeds sqrt(3)*(atol + rtol*|x|): no proper
                        rigid motion can bring every coordinate within the tolerance
  gray                  anything in between - never judged, only counted

Inside the property's domain (every perpendicular width > diameter + 2*atol; checked by `in_domain`) all atoms of
an occurrence lie within one cell width of its first atom, so image shifts in {-1,0,1}^3 suffice.
"""
import itertools

import numpy as np

from vmon.oracle import geometry as G

SHIFTS = np.array(list(itertools.product((-1, 0, 1), repeat=3)), dtype=float)
CLEAR = 0.12
PREFILTER = 3.6      # pairwise-distance prefilter in units of atol (2*sqrt(3)=3.46 is the most a pair can drift)


def in_domain(cell, spos, ppos, atol):
    return bool(G.inside_cell(cell, spos) and np.all(G.perp_widths(cell) > G.diameter(ppos) + 2 * atol))


def nonocc_threshold(atol, maxabs):
    return np.sqrt(3) * (atol + 1e-5 * maxabs) * 1.03


def classify_assignment(ppos, x, atol):
    """-> ('occ'|'non'|'gray', rms, maxres)"""
    if len(ppos) == 1:
        return "occ", 0.0, 0.0
    _, _, rms, mx, _ = G.kabsch(ppos, x)
    if mx <= CLEAR * atol:
        return "occ", rms, mx
    if rms > nonocc_threshold(atol, float(np.abs(x).max())):
        return "non", rms, mx
    return "gray", rms, mx


def search(selements, spos, cell, pelements, ppos, atol, max_candidates=200000):
    """-> dict(groups: {sorted index tuple: {'cls', 'best_max', 'assignments': n}}, truncated: bool)"""
    spos = np.asarray(spos, float)
    ppos = np.asarray(ppos, float)
    cell = np.asarray(cell, float)
    n, m = len(spos), len(ppos)
    img_pos = (spos[None, :, :] + SHIFTS.dot(cell)[:, None, :]).reshape(-1, 3)
    img_atom = np.tile(np.arange(n), len(SHIFTS))
    img_el = np.array([selements[i] for i in img_atom])
    home = np.nonzero(np.all(SHIFTS == 0, axis=1))[0][0] * n
    pD = np.sqrt(((ppos[:, None, :] - ppos[None, :, :]) ** 2).sum(-1))
    tol = PREFILTER * atol
    reach = G.diameter(ppos) + tol
    groups = {}
    ncand = [0]
    truncated = [False]
    for a in range(n):
        if selements[a] != pelements[0]:
            continue
        p0 = img_pos[home + a]
        near = np.nonzero(np.linalg.norm(img_pos - p0, axis=1) <= reach)[0]
        npos = img_pos[near]
        nD = np.sqrt(((npos[:, None, :] - npos[None, :, :]) ** 2).sum(-1))
        start = int(np.nonzero(near == home + a)[0][0])

        def rec(assign):
            if truncated[0]:
                return
            i = len(assign)
            if i == m:
                ncand[0] += 1
                if ncand[0] > max_candidates:
                    truncated[0] = True
                    return
                x = npos[assign]
                cls, rms, mx = classify_assignment(ppos, x, atol)
                key = tuple(sorted(int(img_atom[near[k]]) for k in assign))
                g = groups.setdefault(key, {"cls": "non", "best_max": np.inf, "assignments": 0, "best_rms": np.inf})
                g["assignments"] += 1
                g["best_max"] = min(g["best_max"], mx)
                g["best_rms"] = min(g["best_rms"], rms)
                if cls == "occ" or (cls == "gray" and g["cls"] == "non"):
                    g["cls"] = cls
                return
            used = {int(img_atom[near[k]]) for k in assign}
            for c in range(len(near)):
                if img_el[near[c]] != pelements[i] or int(img_atom[near[c]]) in used:
                    continue
                if all(abs(nD[c, assign[j]] - pD[i, j]) <= tol for j in range(i)):
                    rec(assign + [c])
        rec([start])
    return {"groups": groups, "truncated": truncated[0], "candidates": ncand[0]}
