"""Lattice and rigid-motion helpers written for the harness (no mofun code)."""
import itertools

import numpy as np


def frac(cell, pos):
    return np.asarray(pos, dtype=float).dot(np.linalg.inv(np.asarray(cell, dtype=float)))


def wrap(cell, pos):
    f = frac(cell, pos) % 1.0
    f[f >= 1.0] = 0.0
    return f.dot(np.asarray(cell, dtype=float))


def perp_widths(cell):
    cell = np.asarray(cell, dtype=float)
    vol = abs(np.linalg.det(cell))
    w = []
    for i in range(3):
        j, k = (i + 1) % 3, (i + 2) % 3
        w.append(vol / np.linalg.norm(np.cross(cell[j], cell[k])))
    return np.array(w)


def diameter(pos):
    pos = np.asarray(pos, dtype=float)
    if len(pos) < 2:
        return 0.0
    d = pos[:, None, :] - pos[None, :, :]
    return float(np.sqrt((d ** 2).sum(-1)).max())


def inside_cell(cell, pos, eps=1e-9):
    f = frac(cell, pos)
    return bool(np.all(f >= -eps) and np.all(f < 1 + eps))


def lattice_offset_error(cell, delta):
    """max |frac(delta) - round(frac(delta))| : 0 iff every row of delta is a lattice vector."""
    if len(delta) == 0:
        return 0.0
    f = frac(cell, delta)
    return float(np.abs(f - np.round(f)).max())


def equal_mod_lattice(cell, a, b):
    """max Cartesian distance between a and the periodic image of b nearest to it (per row)."""
    d = np.asarray(a, float) - np.asarray(b, float)
    f = frac(cell, d)
    f -= np.round(f)
    return np.linalg.norm(f.dot(np.asarray(cell, float)), axis=-1)


def kabsch(P, Q):
    """Proper rotation R and translation t minimising sum |R p_i + t - q_i|^2.
    Returns (R 3x3, t, rms, max_norm_residual, max_abs_coordinate_residual)."""
    P = np.asarray(P, float)
    Q = np.asarray(Q, float)
    pc, qc = P.mean(0), Q.mean(0)
    H = (P - pc).T.dot(Q - qc)
    U, S, Vt = np.linalg.svd(H)
    d = np.sign(np.linalg.det(Vt.T.dot(U.T)))
    if d == 0:
        d = 1.0
    D = np.diag([1.0, 1.0, d])
    R = Vt.T.dot(D).dot(U.T)
    t = qc - R.dot(pc)
    res = (R.dot(P.T)).T + t - Q
    rms = float(np.sqrt((res ** 2).sum(1).mean()))
    return R, t, rms, float(np.linalg.norm(res, axis=1).max()), float(np.abs(res).max())


def linf_translation_residual(A, B):
    """min over t of max_i |A_i + t - B_i|_inf  (per coordinate: half the range of B-A)."""
    D = np.asarray(B, float) - np.asarray(A, float)
    if len(D) == 0:
        return 0.0
    return float(((D.max(0) - D.min(0)) / 2.0).max())


def random_rotation(rng):
    """Uniform random proper rotation matrix."""
    q = rng.normal(size=4)
    q /= np.linalg.norm(q)
    w, x, y, z = q
    return np.array([
        [1 - 2 * (y * y + z * z), 2 * (x * y - z * w), 2 * (x * z + y * w)],
        [2 * (x * y + z * w), 1 - 2 * (x * x + z * z), 2 * (y * z - x * w)],
        [2 * (x * z - y * w), 2 * (y * z + x * w), 1 - 2 * (x * x + y * y)]])


def rotation_about(axis, angle):
    axis = np.asarray(axis, float)
    axis = axis / np.linalg.norm(axis)
    K = np.array([[0, -axis[2], axis[1]], [axis[2], 0, -axis[0]], [-axis[1], axis[0], 0]])
    return np.eye(3) + np.sin(angle) * K + (1 - np.cos(angle)) * K.dot(K)


def rotation_taking(u, v):
    """a proper rotation with R u/|u| = v/|v| (any one)."""
    u = np.asarray(u, float) / np.linalg.norm(u)
    v = np.asarray(v, float) / np.linalg.norm(v)
    c = float(np.dot(u, v))
    if c > 1 - 1e-14:
        return np.eye(3)
    if c < -1 + 1e-14:
        # 180 degrees about any axis perpendicular to u
        p = np.cross(u, [1.0, 0, 0])
        if np.linalg.norm(p) < 1e-6:
            p = np.cross(u, [0, 1.0, 0])
        return rotation_about(p, np.pi)
    ax = np.cross(u, v)
    return rotation_about(ax, np.arccos(max(-1.0, min(1.0, c))))


def symmetry_perms(elements, pos, tol=1e-3):
    """All permutations s (tuples) of a small pattern that preserve elements and are realised by a
    proper rigid motion: pos[s] is a proper rigid image of pos (max residual <= tol).
    Only meant for patterns of <= 7 atoms."""
    pos = np.asarray(pos, float)
    n = len(pos)
    if n > 8:
        raise ValueError("pattern too large for symmetry enumeration")
    D = np.sqrt(((pos[:, None, :] - pos[None, :, :]) ** 2).sum(-1))
    out = []

    def rec(partial):
        i = len(partial)
        if i == n:
            if n >= 2:
                _, _, _, mx, _ = kabsch(pos, pos[list(partial)])
                if mx > tol:
                    return
            out.append(tuple(partial))
            return
        for c in range(n):
            if c in partial or elements[c] != elements[i]:
                continue
            if all(abs(D[i, j] - D[c, partial[j]]) <= tol for j in range(i)):
                rec(partial + [c])
    rec([])
    return out


def chirality(pos):
    """signed volume-like measure of the first 4 points that are not coplanar; 0 if planar."""
    pos = np.asarray(pos, float)
    best = 0.0
    for a, b, c, d in itertools.combinations(range(len(pos)), 4):
        v = np.dot(np.cross(pos[b] - pos[a], pos[c] - pos[a]), pos[d] - pos[a])
        if abs(v) > abs(best):
            best = v
    return best


def complete_hints(ppos, hints):
    """the documented auto-completion of (axisp1, axisp2, opoint): both axis points absent -> farthest pair; one absent ->
    the atom farthest from the given one; orientation point absent -> the atom farthest from the axis (n > 2)"""
    p = np.asarray(ppos, float)
    n = len(p)
    a1, a2, o = hints
    D = ((p[:, None, :] - p[None, :, :]) ** 2).sum(-1)
    if a1 is None and a2 is None:
        a1, a2 = [int(x) for x in np.unravel_index(np.argmax(D), D.shape)]
    elif a1 is None or a2 is None:
        a1 = a1 if a1 is not None else a2
        a2 = int(np.argmax(D[a1]))
    if n > 2 and o is None:
        ax = p[a2] - p[a1]
        v = p - p[a1]
        perp = v - np.outer(v.dot(ax) / ax.dot(ax), ax)
        d = (perp ** 2).sum(1)
        o = int(np.nonzero(d == d.max())[0][0])
    return a1, a2, o


def anchored_residual(ppos, x, hints):
    """max per-coordinate deviation left by the documented three-point alignment: first axis atom pinned, axis direction
    aligned, then a rotation about the axis that brings the orientation atom's azimuth into place. Harness's own code."""
    p = np.asarray(ppos, float)
    x = np.asarray(x, float)
    n = len(p)
    if n == 1:
        return 0.0
    a1, a2, o = complete_hints(p, hints)
    pp = p - p[a1]
    xx = x - x[a1]
    R1 = rotation_taking(pp[a2], xx[a2])
    q = pp.dot(R1.T)
    if n > 2:
        ax = xx[a2] / np.linalg.norm(xx[a2])
        u = q[o] - ax * q[o].dot(ax)
        v = xx[o] - ax * xx[o].dot(ax)
        if np.linalg.norm(u) > 1e-9 and np.linalg.norm(v) > 1e-9:
            u, v = u / np.linalg.norm(u), v / np.linalg.norm(v)
            ang = np.arctan2(np.dot(np.cross(u, v), ax), np.dot(u, v))
            q = q.dot(rotation_about(ax, ang).T)
    return float(np.abs(q - xx).max())
