"""Minimal CIF tokenizer/writer for the simple dialect mofun writes (one data block, items,
loops, values without embedded whitespace except quoted strings) and a token-wise comparison.
Independent of PyCifRW."""
import re

NUM = re.compile(r"^[-+]?(\d+\.?\d*|\.\d+)([eE][-+]?\d+)?(\(\d+\))?$")


def tokenize(text):
    toks = []
    for line in text.split("\n"):
        s = line
        if s.startswith("#"):
            continue
        i = 0
        while i < len(s):
            c = s[i]
            if c.isspace():
                i += 1
            elif c == "#":
                break
            elif c in "'\"":
                j = i + 1
                while j < len(s) and not (s[j] == c and (j + 1 == len(s) or s[j + 1].isspace())):
                    j += 1
                toks.append(("q", s[i + 1:j]))
                i = j + 1
            else:
                j = i
                while j < len(s) and not s[j].isspace():
                    j += 1
                toks.append(("w", s[i:j]))
                i = j
    return toks


def parse(text):
    """-> {'block': name, 'items': [(tag, value)], 'loops': [(tags, rows)]}"""
    toks = tokenize(text)
    out = {"block": None, "items": [], "loops": []}
    i = 0
    while i < len(toks):
        kind, t = toks[i]
        if kind == "w" and t.lower().startswith("data_"):
            out["block"] = t[5:]
            i += 1
        elif kind == "w" and t.lower() == "loop_":
            i += 1
            tags = []
            while i < len(toks) and toks[i][0] == "w" and toks[i][1].startswith("_"):
                tags.append(toks[i][1])
                i += 1
            vals = []
            while i < len(toks) and not (toks[i][0] == "w" and (toks[i][1].startswith("_") or toks[i][1].lower() == "loop_" or toks[i][1].lower().startswith("data_"))):
                vals.append(toks[i][1])
                i += 1
            n = len(tags)
            rows = [vals[k:k + n] for k in range(0, len(vals), n)] if n else []
            out["loops"].append((tags, rows))
        elif kind == "w" and t.startswith("_"):
            out["items"].append((t, toks[i + 1][1] if i + 1 < len(toks) else None))
            i += 2
        else:
            i += 1
    return out


def emit(doc):
    """write a parsed document back as text (used to build reading variants)"""
    def q(v):
        v = str(v)
        return "'%s'" % v if (" " in v or v == "") else v
    lines = ["data_%s" % (doc["block"] or "structure"), ""]
    for tag, v in doc["items"]:
        lines.append("%-40s%s" % (tag, q(v)))
    for tags, rows in doc["loops"]:
        lines.append("loop_")
        for t in tags:
            lines.append("  " + t)
        for r in rows:
            lines.append("  " + "  ".join(q(v) for v in r))
    return "\n".join(lines) + "\n"


def is_num(s):
    return bool(NUM.match(s))


def num(s):
    return float(re.sub(r"\(\d+\)$", "", s))


def compare(doc1, doc2, frac_mod1=True, rel=1e-9):
    """token-wise comparison of two parsed documents -> list of messages"""
    bad = []
    if [t for t, _ in doc1["items"]] != [t for t, _ in doc2["items"]]:
        bad.append("item tags differ: %s vs %s" % ([t for t, _ in doc1["items"]], [t for t, _ in doc2["items"]]))
        return bad
    for (t, a), (_, b) in zip(doc1["items"], doc2["items"]):
        if not _same(a, b, False, rel):
            bad.append("%s: %r vs %r" % (t, a, b))
    if len(doc1["loops"]) != len(doc2["loops"]):
        bad.append("number of loops differs: %d vs %d" % (len(doc1["loops"]), len(doc2["loops"])))
        return bad
    for (tags1, rows1), (tags2, rows2) in zip(doc1["loops"], doc2["loops"]):
        if tags1 != tags2:
            bad.append("loop tags differ: %s vs %s" % (tags1, tags2))
            continue
        if len(rows1) != len(rows2):
            bad.append("loop %s: %d vs %d rows" % (tags1[0], len(rows1), len(rows2)))
            continue
        for r, (x, y) in enumerate(zip(rows1, rows2)):
            for tag, a, b in zip(tags1, x, y):
                fr = frac_mod1 and tag.lower() in ("_atom_site_fract_x", "_atom_site_fract_y", "_atom_site_fract_z")
                if not _same(a, b, fr, rel):
                    bad.append("loop %s row %d %s: %r vs %r" % (tags1[0], r, tag, a, b))
    return bad


def _same(a, b, frac, rel):
    if a == b:
        return True
    if a is None or b is None:
        return False
    if is_num(a) and is_num(b):
        x, y = num(a), num(b)
        if frac:
            d = abs((x - y + 0.5) % 1.0 - 0.5)
            return d <= 1e-9
        return abs(x - y) <= rel * max(abs(x), abs(y), 1e-300)
    return False
