"""Reference evaluation of the UFF functional forms (Rappe et al., JACS 114, 10024 (1992)), with the
angle force constant in the corrected form used by Towhee (no r_ij*r_jk prefactor; the repository's
pinned test fixes this against the normative amide value 2*105.5) and the special cases that the
repository documents in docstrings and comments.  Written for the harness; it reads only the
parameter table (the property's given data).

Table columns: 0 r1, 1 theta0, 2 x1, 3 D1, 4 zeta, 5 Z1, 6 Vi, 7 Uj, 8 Xi, 9 Hard, 10 Radius
"""
import math

BETA = 664.12
SINGLE = ("H_", "F_", "Cl", "Br", "I_", "C_3", "N_3", "O_3")
DOUBLE = ("C_2", "N_2", "O_2")
RESONANT = ("C_R", "N_R", "O_R")
CHALCOGENS = ("O", "S", "Se", "Te", "Po")


class Unsupported(Exception):
    pass


def bond_order(t1, t2, rules=None):
    pair = {t1, t2}
    for want, bo in (rules or []):
        if pair == set(want):
            return bo
    if any(t in SINGLE for t in pair):
        return 1
    if t1 == t2 and t1 in DOUBLE:
        return 2
    if t1 == t2 and t1 in RESONANT:
        return 1.5
    return 1


def natural_bond_length(T, t1, t2, bo):
    ri, rj = T[t1][0], T[t2][0]
    xi, xj = T[t1][8], T[t2][8]
    r_bo = -0.1332 * (ri + rj) * math.log(bo)
    r_en = ri * rj * (math.sqrt(xi) - math.sqrt(xj)) ** 2 / (xi * ri + xj * rj)
    return ri + rj + r_bo - r_en


def bond(T, t1, t2, bo=None, rules=None):
    """-> (K for LAMMPS harmonic = k_ij/2, r_ij)"""
    if bo is None:
        bo = bond_order(t1, t2, rules)
    r = natural_bond_length(T, t1, t2, bo)
    k = BETA * T[t1][5] * T[t2][5] / r ** 3
    return (0.5 * k, r)


def angle(T, t1, t2, t3, bos=(None, None), rules=None):
    th_deg = T[t2][1]
    th = math.radians(th_deg)
    c = math.cos(th)
    rij = bond(T, t1, t2, bos[0], rules)[1]
    rjk = bond(T, t2, t3, bos[1], rules)[1]
    rik2 = rij * rij + rjk * rjk - 2.0 * rij * rjk * c
    rik = math.sqrt(rik2)
    K = BETA * T[t1][5] * T[t3][5] / rik ** 5 * (3.0 * rij * rjk * (1.0 - c * c) - rik2 * c)
    if th_deg == 180.0:
        return ("cosine/periodic", K, 1, 1)
    if th_deg == 120.0:
        return ("cosine/periodic", K, -1, 3)
    if th_deg == 90.0:
        if len(t2) > 2 and t2[2] == "3":
            return ("cosine/periodic", K, -1, 2)
        return ("cosine/periodic", K, 1, 4)
    c2 = 1.0 / (4.0 * math.sin(th) ** 2)
    c1 = -4.0 * c2 * c
    c0 = c2 * (2.0 * c * c + 1.0)
    return ("fourier", K, c0, c1, c2)


def _hyb(t):
    return t[2] if len(t) > 2 else None


def _el(t):
    return t[:2].strip("_")


def torsion(T, main_group, t1, t2, t3, t4, M=1, bo=None, rules=None):
    """-> ('harmonic', K, d, n) | None (no torsion defined); raises Unsupported where the repository documents that it
    does not know how to handle the combination."""
    hj, hk = _hyb(t2), _hyb(t3)
    ej, ek = _el(t2), _el(t3)
    if bo is None:
        bo = bond_order(t2, t3, rules)
    if hj == "3" and hk == "3":
        n = 3
        vj, vk = T[t2][6], T[t3][6]
        if ej in CHALCOGENS and ek in CHALCOGENS:
            n = 2
            vj = 2.0 if ej == "O" else 6.8
            vk = 2.0 if ek == "O" else 6.8
        V = math.sqrt(vj * vk) / M
        return ("harmonic", V / 2.0, 1, n)
    sp2 = ("2", "R")
    if hj in sp2 and hk in sp2:
        V = 5.0 * math.sqrt(T[t2][7] * T[t3][7]) * (1.0 + 4.18 * math.log(bo)) / M
        return ("harmonic", V / 2.0, -1, 2)
    if hj in sp2 + ("3",) and hk in sp2 + ("3",):
        # one sp3 centre, one sp2/resonant centre
        if (_hyb(t1) == "2" and hj == "2") or (hk == "2" and _hyb(t4) == "2"):
            return ("harmonic", (2.0 / M) / 2.0, 1, 3)
        if (hj == "3" and ej in CHALCOGENS and ek not in CHALCOGENS) or (hk == "3" and ek in CHALCOGENS and ej not in CHALCOGENS):
            V = 5.0 * math.sqrt(T[t2][7] * T[t3][7]) * (1.0 + 4.18 * math.log(bo)) / M
            return ("harmonic", V / 2.0, 1, 2)
        return ("harmonic", (1.0 / M) / 2.0, -1, 6)
    if hj == "1" or hk == "1":
        return None
    if not (ej in main_group and ek in main_group):
        return None
    raise Unsupported("%s-%s-%s-%s" % (t1, t2, t3, t4))


def pair(T, t):
    """-> [epsilon, sigma] for LAMMPS lj/cut: sigma = x1 * 2^(-1/6), epsilon = D1"""
    return [T[t][3], T[t][2] * 2.0 ** (-1.0 / 6.0)]


def outer_class(t):
    """what a torsion can depend on in an outer atom: its hybridisation character"""
    return _hyb(t)
