"""C09 structural invariant of an Atoms object, evaluated at the exit of constructors and mutators."""
import numpy as np

KINDS = [("bond", "bonds", 2), ("angle", "angles", 3), ("dihedral", "dihedrals", 4), ("improper", "impropers", 4)]


def _is_int_array(a):
    a = np.asarray(a)
    if a.size == 0:
        return True
    if np.issubdtype(a.dtype, np.integer):
        return True
    if np.issubdtype(a.dtype, np.floating):
        return bool(np.all(a == np.round(a)))
    return False


def inconsistencies(a):
    """-> list of (clause, message). Empty list = consistent."""
    bad = []
    try:
        pos = np.asarray(a.positions)
        n = len(pos)
        if n > 0 and (pos.ndim != 2 or pos.shape[1] != 3):
            bad.append(("positions_shape", "positions has shape %s" % (pos.shape,)))
        for name in ("atom_types", "charges", "groups", "extra_atom_fields"):
            m = len(getattr(a, name))
            if m != n:
                bad.append(("per_atom_length", "%s has %d entries for %d atoms" % (name, m, n)))
        for kind, _, _ in [("atom", None, None)] + KINDS:
            labels = getattr(a, "extra_%s_labels" % kind)
            fields = np.asarray(getattr(a, "extra_%s_fields" % kind))
            if fields.ndim != 2:
                bad.append(("extra_fields_shape", "extra_%s_fields has ndim %d" % (kind, fields.ndim)))
            elif fields.shape[1] != len(labels):
                bad.append(("extra_fields_width", "extra_%s_fields has %d columns for %d labels" % (kind, fields.shape[1], len(labels))))
        at = np.asarray(a.atom_types)
        if n > 0:
            if not _is_int_array(at) or at.min() < 0:
                bad.append(("atom_type_ids", "atom type ids are not non-negative integers"))
            else:
                mx = int(at.max())
                for name in ("atom_type_elements", "atom_type_masses", "atom_type_labels"):
                    if mx >= len(getattr(a, name)):
                        bad.append(("atom_type_data", "atom type id %d in use but %s has %d entries" % (mx, name, len(getattr(a, name)))))
                if len(a.pair_coeffs) > 0 and mx >= len(a.pair_coeffs):
                    bad.append(("pair_table_covers_types", "atom type id %d in use but pair_coeffs has %d entries" % (mx, len(a.pair_coeffs))))
                if mx < len(a.atom_type_elements):
                    # the public per-atom accessor is derived data: it has to say what the type arrays say, whenever it is asked
                    tab = [str(e) for e in a.atom_type_elements]
                    want = [tab[int(t)] for t in at]
                    got = [str(e) for e in a.elements]
                    if got != want:
                        k = [i for i in range(min(len(got), len(want))) if got[i] != want[i]][:3]
                        bad.append(("elements_accessor", "Atoms.elements says %s for atoms %s whose atom types say %s (%d vs %d entries)" %
                                    ([got[i] for i in k], k, [want[i] for i in k], len(got), len(want))))
        for kind, arrname, w in KINDS:
            arr = np.asarray(getattr(a, arrname))
            types = np.asarray(getattr(a, "%s_types" % kind))
            xf = getattr(a, "extra_%s_fields" % kind)
            table = getattr(a, "%s_type_coeffs" % kind)
            m = len(arr)
            if len(types) != m:
                bad.append(("term_type_length", "%d %s but %d %s_types" % (m, arrname, len(types), kind)))
            if len(xf) != m:
                bad.append(("term_extra_length", "%d %s but %d extra_%s_fields rows" % (m, arrname, len(xf), kind)))
            if m > 0:
                if arr.ndim != 2 or arr.shape[1] != w:
                    bad.append(("term_shape", "%s has shape %s" % (arrname, arr.shape)))
                elif not _is_int_array(arr) or arr.min() < 0 or arr.max() >= n:
                    bad.append(("term_atom_range", "%s refers to atoms outside 0..%d: min %s max %s" % (arrname, n - 1, arr.min(), arr.max())))
                if len(types) == m:
                    if not _is_int_array(types) or types.min() < 0:
                        bad.append(("term_type_ids", "%s_types are not non-negative integers" % kind))
                    elif len(table) > 0 and int(types.max()) >= len(table):
                        bad.append(("term_type_data", "%s type id %d in use but table has %d entries" % (kind, int(types.max()), len(table))))
    except Exception as e:  # an object so broken that it cannot even be inspected
        bad.append(("uninspectable", "%s: %s" % (type(e).__name__, e)))
    return bad
