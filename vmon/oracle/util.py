"""Small helpers shared by the checks."""
import numpy as np


def deep_diff(a, b, ignore_prefix="_vmon"):
    """attribute-by-attribute comparison of two Atoms objects -> list of differing attribute names"""
    out = []
    keys = sorted(set(a.__dict__) | set(b.__dict__))
    for k in keys:
        if k.startswith(ignore_prefix):
            continue
        if k not in a.__dict__ or k not in b.__dict__:
            out.append(k + " (missing)")
            continue
        x, y = a.__dict__[k], b.__dict__[k]
        try:
            if x is None or y is None:
                same = x is None and y is None
            else:
                xa, ya = np.asarray(x), np.asarray(y)
                same = xa.shape == ya.shape and bool(np.all(xa == ya))
        except Exception:
            same = repr(x) == repr(y)
        if not same:
            out.append(k)
    return out


def clone(a):
    """the harness's own deep copy of an Atoms object. Atoms.copy() is code under observation: the harness never relies
    on it for its own bookkeeping (snapshots, scratch objects)."""
    import copy
    return copy.deepcopy(a)
