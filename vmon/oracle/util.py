"""Small helpers shared by the checks."""
import numpy as np


def deep_diff(a, b, ignore_prefix="_"):
    """attribute-by-attribute comparison of two Atoms objects -> list of differing attribute names.
    Private attributes (leading underscore) are not state a user can observe: a memo filled in while the object is read is no
    modification, and a stale one shows in what the public accessors return, which is compared elsewhere."""
    out = []
    keys = sorted(set(a.__dict__) | set(b.__dict__))
    for k in keys:
        if k.startswith(ignore_prefix):
            continue
        if k not in a.__dict__ or k not in b.__dict__:
            out.append(k + " (missing)")
            continue
        x, y = a.__dict__[k], b.__dict__[k]
        try:
            if x is None or y is None:
                same = x is None and y is None
            else:
                xa, ya = np.asarray(x), np.asarray(y)
                same = xa.shape == ya.shape and bool(np.all(xa == ya))
        except Exception:
            same = repr(x) == repr(y)
        if not same:
            out.append(k)
    return out


def clone(a):
    """the harness's own deep copy of an Atoms object. Atoms.copy() is code under observation: the harness never relies
    on it for its own bookkeeping (snapshots, scratch objects)."""
    import copy
    return copy.deepcopy(a)


_WORKER_DIR = None


def worker_dir():
    """one scratch directory per worker process, removed at exit. Files in it are overwritten from case to case ON PURPOSE:
    a path that was read before and now holds other content is what a reader that remembers paths gets wrong."""
    global _WORKER_DIR
    import atexit
    import os
    import shutil
    import tempfile
    if _WORKER_DIR is None or not os.path.isdir(_WORKER_DIR):
        _WORKER_DIR = tempfile.mkdtemp(prefix="vmon-worker-")
        atexit.register(shutil.rmtree, _WORKER_DIR, True)
    return _WORKER_DIR


_PRIMED = set()
_DECOY_CML = ('<molecule>\n <atomArray>\n  <atom id="a1" elementType="Xe" x3="0.5" y3="0.25" z3="0.125"/>\n </atomArray>\n</molecule>\n')


def prime_path(p):
    """make sure `p` has been written and read once with OTHER content (a one-atom decoy) in this process, so that a replay
    of a single case also meets 'a path read before, now holding other content'"""
    if p in _PRIMED:
        return
    _PRIMED.add(p)
    import contextlib
    import io
    import numpy as np_
    from mofun import Atoms
    try:
        with contextlib.redirect_stdout(io.StringIO()):
            if p.endswith(".cml"):
                with open(p, "w") as f:
                    f.write(_DECOY_CML)
            else:
                Atoms(elements=["Xe"], positions=np_.array([[0.5, 0.25, 0.125]]), cell=np_.diag([5.0, 6.0, 7.0])).save(p)
            Atoms.load(p)
    except Exception:
        pass       # the decoy is only a preparation; whatever is wrong with writing/reading shows in the judged calls


def elements_of(a):
    """per-atom element symbols computed from the object's type arrays, not through Atoms.elements (code under observation:
    whatever it may remember from an earlier call must not reach the harness's own bookkeeping)"""
    tab = [str(e) for e in a.atom_type_elements]
    return [tab[int(t)] for t in a.atom_types]


import io as _io


class Pipe(_io.TextIOBase):
    """a text stream as sys.stdin or the read end of a pipe is: readable once, front to back; it cannot seek or tell"""
    def __init__(self, text):
        self._s = _io.StringIO(text)

    def readable(self):
        return True

    def seekable(self):
        return False

    def read(self, n=-1):
        return self._s.read(n)

    def readline(self, n=-1):
        return self._s.readline(n)

    def seek(self, *a):
        raise _io.UnsupportedOperation("underlying stream is not seekable")

    def tell(self):
        raise _io.UnsupportedOperation("underlying stream is not seekable")


def non_ascii(atoms):
    """labels and coefficient comments as people write them (Greek letters, the angstrom and degree signs): edits `atoms` in
    place; equal labels stay equal, different ones stay different"""
    import numpy as np
    suffix = ["\u03b1", "\u03b2", "\u2032", "\u00e9"]
    new = [(str(l) + suffix[sum(ord(c) for c in str(l)) % 4]) if str(l) else str(l) for l in atoms.atom_type_labels]
    atoms.atom_type_labels = np.array(new) if isinstance(atoms.atom_type_labels, np.ndarray) else new
    for name in ["pair_coeffs", "bond_type_coeffs", "angle_type_coeffs", "dihedral_type_coeffs", "improper_type_coeffs"]:
        tab = getattr(atoms, name)
        if len(tab):
            new = [str(x) + (" 1.09\u00c5" if "#" in str(x) else " # 109.5\u00b0") for x in tab]
            setattr(atoms, name, np.array(new) if isinstance(tab, np.ndarray) else new)
    return atoms


FLAVOURS = ["as_built", "int32_terms", "fortran_positions", "read_only_arrays", "int16_types_and_terms"]


def flavour(atoms, k):
    """the same structure with its arrays in another flavour numpy hands out: term and type arrays of another integer width,
    positions in column-major memory order, arrays flagged read-only (as np.load(mmap_mode='r') / np.frombuffer give them).
    Edits `atoms` in place (attribute assignment, as a user would), returns the flavour's name."""
    import numpy as np
    name = FLAVOURS[k % len(FLAVOURS)]
    terms = ["bonds", "angles", "dihedrals", "impropers"]
    types = ["bond_types", "angle_types", "dihedral_types", "improper_types"]
    if name in ("int32_terms", "int16_types_and_terms"):
        dt = np.int32 if name == "int32_terms" else np.int16
        for t in terms + types:
            v = np.asarray(getattr(atoms, t))
            if v.size and v.max(initial=0) < np.iinfo(dt).max:
                setattr(atoms, t, v.astype(dt))
        if name == "int16_types_and_terms" and len(atoms.atom_types):
            atoms.atom_types = np.asarray(atoms.atom_types).astype(np.int16)
    elif name == "fortran_positions":
        atoms.positions = np.asfortranarray(np.asarray(atoms.positions, float))
        if atoms.cell is not None:
            atoms.cell = np.asfortranarray(np.asarray(atoms.cell, float))
        # ... and the term arrays too, as np.argwhere(adjacency) / np.array([i, j]).T / np.transpose(np.nonzero(...)) hand them out
        for t in terms:
            v = np.asarray(getattr(atoms, t))
            if v.ndim == 2 and v.shape[0] >= 2:
                setattr(atoms, t, np.asfortranarray(v))
    elif name == "read_only_arrays":
        for t in ["positions", "atom_types", "charges", "groups"] + terms + types:
            v = getattr(atoms, t)
            if isinstance(v, np.ndarray):
                v = v.copy()
                v.setflags(write=False)
                setattr(atoms, t, v)
        if isinstance(atoms.cell, np.ndarray):
            c = atoms.cell.copy()
            c.setflags(write=False)
            atoms.cell = c
    return name
