"""Independent reader for LAMMPS data files, written from the read_data format description
(https://docs.lammps.org/read_data.html): title line, header keywords, section keywords followed
by a blank line and one line per item, 1-based ids, '#' starts a comment.  Shares no code with
mofun's loader and is deliberately strict: anything the format does not allow is reported in
`problems` instead of being tolerated.
"""

HEADER_COUNTS = ["atoms", "bonds", "angles", "dihedrals", "impropers"]
HEADER_TYPES = ["atom types", "bond types", "angle types", "dihedral types", "improper types"]
COEFF_SECTIONS = ["Pair Coeffs", "Bond Coeffs", "Angle Coeffs", "Dihedral Coeffs", "Improper Coeffs"]
TERM_SECTIONS = {"Bonds": 2, "Angles": 3, "Dihedrals": 4, "Impropers": 4}
SECTIONS = ["Masses", "Atoms"] + COEFF_SECTIONS + list(TERM_SECTIONS)


def _split_comment(line):
    if "#" in line:
        body, comment = line.split("#", 1)
        return body.strip(), comment.strip()
    return line.strip(), None


def parse(text, atom_style="full"):
    lines = text.split("\n")
    out = {"title": lines[0] if lines else "", "counts": {}, "types": {}, "box": {}, "tilt": None, "masses": {}, "mass_order": [],
           "coeffs": {s: {} for s in COEFF_SECTIONS}, "coeff_order": {s: [] for s in COEFF_SECTIONS},
           "atoms": [], "terms": {s: [] for s in TERM_SECTIONS}, "sections": [], "problems": []}
    prob = out["problems"]
    i = 1
    n = len(lines)
    # header
    while i < n:
        body, _ = _split_comment(lines[i])
        if body == "":
            i += 1
            continue
        if body in SECTIONS:
            break
        tok = body.split()
        matched = False
        for key in HEADER_TYPES + HEADER_COUNTS:
            kt = key.split()
            if tok[1:] == kt:
                try:
                    (out["types"] if key in HEADER_TYPES else out["counts"])[key] = int(tok[0])
                except ValueError:
                    prob.append("header value not an integer: %r" % body)
                matched = True
                break
        if not matched:
            if tok[-2:] in (["xlo", "xhi"], ["ylo", "yhi"], ["zlo", "zhi"]) and len(tok) == 4:
                out["box"][tok[2][0]] = (float(tok[0]), float(tok[1]))
            elif tok[-3:] == ["xy", "xz", "yz"] and len(tok) == 6:
                out["tilt"] = (float(tok[0]), float(tok[1]), float(tok[2]))
            else:
                prob.append("unrecognised header line: %r" % body)
        i += 1
    # sections
    while i < n:
        body, _ = _split_comment(lines[i])
        if body == "":
            i += 1
            continue
        name = body
        if name not in SECTIONS:
            prob.append("unrecognised section keyword: %r" % body)
            i += 1
            continue
        out["sections"].append(name)
        i += 1
        if i < n and lines[i].strip() != "":
            prob.append("section %s: keyword line not followed by a blank line" % name)
        while i < n and lines[i].strip() == "":
            i += 1
        while i < n and lines[i].strip() != "":
            body, comment = _split_comment(lines[i])
            if body in SECTIONS:
                prob.append("section %s not terminated by a blank line" % name)
                break
            tok = body.split()
            try:
                if name == "Masses":
                    t = int(tok[0])
                    if len(tok) != 2:
                        prob.append("Masses line with %d fields: %r" % (len(tok), body))
                    if t in out["masses"]:
                        prob.append("mass of type %d given twice" % t)
                    out["masses"][t] = (float(tok[1]), comment)
                    out["mass_order"].append(t)
                elif name in COEFF_SECTIONS:
                    t = int(tok[0])
                    if t in out["coeffs"][name]:
                        prob.append("%s: type %d given twice" % (name, t))
                    out["coeffs"][name][t] = (tok[1:], comment)
                    out["coeff_order"][name].append(t)
                elif name == "Atoms":
                    if atom_style == "full":
                        if len(tok) not in (7, 10):
                            prob.append("Atoms (full) line with %d fields: %r" % (len(tok), body))
                        out["atoms"].append({"id": int(tok[0]), "mol": int(tok[1]), "type": int(tok[2]), "q": float(tok[3]),
                                             "pos": (float(tok[4]), float(tok[5]), float(tok[6])), "comment": comment})
                    else:
                        if len(tok) not in (5, 8):
                            prob.append("Atoms (atomic) line with %d fields: %r" % (len(tok), body))
                        out["atoms"].append({"id": int(tok[0]), "mol": None, "type": int(tok[1]), "q": None,
                                             "pos": (float(tok[2]), float(tok[3]), float(tok[4])), "comment": comment})
                else:
                    w = TERM_SECTIONS[name]
                    if len(tok) != 2 + w:
                        prob.append("%s line with %d fields: %r" % (name, len(tok), body))
                    out["terms"][name].append({"id": int(tok[0]), "type": int(tok[1]), "atoms": tuple(int(x) for x in tok[2:2 + w]), "comment": comment})
            except (ValueError, IndexError) as e:
                prob.append("section %s: cannot parse %r (%s)" % (name, body, e))
            i += 1
    return out


def consistency_problems(d):
    """what LAMMPS itself would reject or mis-read: declared counts vs section contents, id ranges"""
    p = list(d["problems"])
    c, t = d["counts"], d["types"]
    natoms = c.get("atoms")
    if natoms is None:
        p.append("no 'atoms' header line")
        natoms = 0
    if len(d["atoms"]) != natoms:
        p.append("header declares %d atoms, Atoms section has %d lines" % (natoms, len(d["atoms"])))
    ids = [a["id"] for a in d["atoms"]]
    if sorted(ids) != list(range(1, len(ids) + 1)):
        p.append("atom ids are not 1..N")
    nat = t.get("atom types", 0)
    for a in d["atoms"]:
        if not 1 <= a["type"] <= nat:
            p.append("atom %d has type %d outside 1..%d" % (a["id"], a["type"], nat))
            break
    if len(d["atoms"]) > 0 and sorted(d["masses"]) != list(range(1, nat + 1)):
        p.append("Masses lists types %s but %d atom types are declared" % (sorted(d["masses"]), nat))
    for sec, key, tkey in (("Bonds", "bonds", "bond types"), ("Angles", "angles", "angle types"),
                           ("Dihedrals", "dihedrals", "dihedral types"), ("Impropers", "impropers", "improper types")):
        rows = d["terms"][sec]
        if len(rows) != c.get(key, 0):
            p.append("header declares %d %s, section has %d lines" % (c.get(key, 0), key, len(rows)))
        if [r["id"] for r in rows] != list(range(1, len(rows) + 1)):
            p.append("%s ids are not 1..N in order" % sec)
        nt = t.get(tkey, 0)
        for r in rows:
            if not 1 <= r["type"] <= nt:
                p.append("%s %d has type %d outside the declared 1..%d" % (sec, r["id"], r["type"], nt))
                break
            if any(not 1 <= x <= natoms for x in r["atoms"]):
                p.append("%s %d refers to atom outside 1..%d: %s" % (sec, r["id"], natoms, r["atoms"]))
                break
    for sec, tkey in (("Pair Coeffs", "atom types"), ("Bond Coeffs", "bond types"), ("Angle Coeffs", "angle types"),
                      ("Dihedral Coeffs", "dihedral types"), ("Improper Coeffs", "improper types")):
        if sec in d["sections"]:
            nt = t.get(tkey, 0)
            if sorted(d["coeffs"][sec]) != list(range(1, nt + 1)):
                p.append("%s lists types %s but %d %s are declared" % (sec, _rng(sorted(d["coeffs"][sec])), nt, tkey))
    for ax in "xyz":
        if ax not in d["box"]:
            p.append("no %slo %shi line" % (ax, ax))
    return p


def _rng(xs):
    return "%d..%d (%d lines)" % (xs[0], xs[-1], len(xs)) if xs else "none"
