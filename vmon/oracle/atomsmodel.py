"""Resolved reference model of an Atoms object.

Type ids are resolved away: every atom carries (element, label, mass, pair text) and every
term the coefficient text of its type (or, for a kind without a coefficient table, an opaque
raw-type token that is compared up to a bijection).  Atoms are identified by their charge,
which the generators make unique and exactly representable; nothing in mofun rewrites the
charge of an existing atom.  The model has its own small implementations of delete, extend,
replicate, subset and replace; none of them shares code with mofun.
"""
import copy

import numpy as np

KINDS = [("bond", "bonds", 2), ("angle", "angles", 3), ("dihedral", "dihedrals", 4), ("improper", "impropers", 4)]
KNAMES = [k for k, _, _ in KINDS]
MISSING = "<<no type-level data>>"


class Model:
    def __init__(self):
        self.atoms = []      # dicts: id,pos,el,label,mass,pair,charge,group,extras{label:value}
        self.terms = {k: [] for k in KNAMES}   # (ids tuple, coeff token, extras{label:value})
        self.xlabels = {k: [] for k in ["atom"] + KNAMES}
        self.cell = None

    def copy(self):
        return copy.deepcopy(self)

    def ids(self):
        return [a["id"] for a in self.atoms]


def _norm_tokens(s):
    return " ".join(str(s).split())


def resolve(a, raw_tag="R", ids=None):
    """real Atoms -> Model. ids: optional list of atom ids to use instead of the charges (for atoms whose charge is
    not unique, e.g. the copies of one replacement atom inserted for several matches)"""
    m = Model()
    m.cell = None if a.cell is None else np.array(a.cell, dtype=float)
    n = len(a.positions)
    xl = list(a.extra_atom_labels)
    m.xlabels["atom"] = xl
    els, labs, masses, pairs = list(a.atom_type_elements), list(a.atom_type_labels), list(a.atom_type_masses), list(a.pair_coeffs)
    for i in range(n):
        t = int(a.atom_types[i])

        def pick(tab):
            return tab[t] if 0 <= t < len(tab) else MISSING
        m.atoms.append({
            "id": (float(a.charges[i]) if ids is None else ids[i]), "pos": np.array(a.positions[i], dtype=float), "el": str(pick(els)), "label": str(pick(labs)),
            "mass": (float(masses[t]) if 0 <= t < len(masses) else MISSING),
            "pair": (None if len(pairs) == 0 else (_norm_tokens(pairs[t]) if 0 <= t < len(pairs) else MISSING)),
            "charge": float(a.charges[i]), "group": int(a.groups[i]),
            "extras": {l: str(a.extra_atom_fields[i][j]) for j, l in enumerate(xl)},
        })
    ids = [x["id"] for x in m.atoms]
    for kind, arrname, w in KINDS:
        arr = np.asarray(getattr(a, arrname)).reshape(-1, w)
        types = np.asarray(getattr(a, "%s_types" % kind))
        table = list(getattr(a, "%s_type_coeffs" % kind))
        xlk = list(getattr(a, "extra_%s_labels" % kind))
        xf = getattr(a, "extra_%s_fields" % kind)
        m.xlabels[kind] = xlk
        for r in range(len(arr)):
            t = int(types[r])
            if len(table) == 0:
                tok = (raw_tag, t)
            elif 0 <= t < len(table):
                tok = _norm_tokens(table[t])
            else:
                tok = MISSING
            tup = tuple(ids[int(i)] if 0 <= int(i) < n else ("bad-index", int(i)) for i in arr[r])
            m.terms[kind].append((tup, tok, {l: str(xf[r][j]) for j, l in enumerate(xlk)}))
    return m


# ------------------------------------------------------------------------------------------
# model operations

def delete(m, ids):
    ids = set(ids)
    out = m.copy()
    out.atoms = [a for a in out.atoms if a["id"] not in ids]
    for k in KNAMES:
        out.terms[k] = [t for t in out.terms[k] if not (set(t[0]) & ids)]
    return out


def _merge_labels(mine, theirs):
    return list(mine) + [l for l in theirs if l not in mine]


def extend(m, other, idmap=None, retag=None):
    """m extended by other; idmap {other id: id in m} for atoms declared identical.
    retag: function applied to other's raw-type tokens (to keep them apart from m's)."""
    idmap = dict(idmap or {})
    out = m.copy()
    o = other.copy()
    labels = {k: _merge_labels(out.xlabels[k], o.xlabels[k]) for k in out.xlabels}

    def pad(ex, k):
        return {l: ex.get(l, ".") for l in labels[k]}
    for a in out.atoms:
        a["extras"] = pad(a["extras"], "atom")
    byid = {a["id"]: a for a in out.atoms}
    for a in o.atoms:
        if a["id"] in idmap:
            tgt = byid[idmap[a["id"]]]
            for f in ("el", "label", "mass", "pair"):
                tgt[f] = a[f]
            if labels["atom"]:
                tgt["extras"] = pad(a["extras"], "atom")
        else:
            b = dict(a)
            b["extras"] = pad(a["extras"], "atom")
            out.atoms.append(b)
    for k in KNAMES:
        mine = [(t[0], t[1], pad(t[2], k)) for t in out.terms[k]]
        new = []
        for tup, tok, ex in o.terms[k]:
            tup2 = tuple(idmap.get(i, i) for i in tup)
            if retag is not None and isinstance(tok, tuple):
                tok = retag(tok)
            new.append((tup2, tok, pad(ex, k)))
        newset = {t[0] for t in new} | {tuple(reversed(t[0])) for t in new}
        mine = [t for t in mine if t[0] not in newset]
        out.terms[k] = mine + new
    out.xlabels = labels
    return out


def translate(m, delta):
    out = m.copy()
    for a in out.atoms:
        a["pos"] = a["pos"] + np.asarray(delta, float)
    return out


def subset(m, ids):
    """atoms[idx]: atoms only, in the order listed, no terms, no extras"""
    out = Model()
    out.cell = None if m.cell is None else m.cell.copy()
    byid = {a["id"]: a for a in m.atoms}
    for i in ids:
        a = dict(byid[i])
        a["extras"] = {}
        out.atoms.append(a)
    return out


# ------------------------------------------------------------------------------------------
# comparison

def _canon(kind, tup):
    if kind == "improper":
        return tuple(tup)
    r = tuple(reversed(tup))
    return min(tuple(tup), r, key=lambda t: [repr(x) for x in t])


def compare(real, pred, pos_tol=1e-9, mod_cell=None, check_pos=True, ordered=True, fields=("el", "label", "mass", "pair", "charge", "group", "extras"),
            term_extras=True, mass_tol=1e-9):
    """-> list of (field, message). real/pred: Model. Raw-type tokens are compared up to a bijection per kind."""
    bad = []
    rid, pid = real.ids(), pred.ids()
    if ordered:
        if rid != pid:
            bad.append(("atom_order", "atom id sequence differs: real %s ... predicted %s ..." % (_short(rid), _short(pid))))
            if sorted(rid, key=repr) != sorted(pid, key=repr):
                extra = sorted(set(rid) - set(pid), key=repr)
                missing = sorted(set(pid) - set(rid), key=repr)
                bad.append(("atom_set", "atoms only in real: %s; only in prediction: %s; counts %d vs %d" % (_short(extra), _short(missing), len(rid), len(pid))))
                return bad
    else:
        if sorted(rid, key=repr) != sorted(pid, key=repr):
            bad.append(("atom_set", "atom id multiset differs (%d real, %d predicted): only real %s only predicted %s" %
                        (len(rid), len(pid), _short(sorted(set(rid) - set(pid), key=repr)), _short(sorted(set(pid) - set(rid), key=repr)))))
            return bad
    if len(set(rid)) == len(rid):
        pb = {a["id"]: a for a in pred.atoms}
        for a in real.atoms:
            b = pb[a["id"]]
            for f in fields:
                x, y = a[f], b[f]
                if f == "mass" and x != MISSING and y != MISSING:
                    ok = abs(x - y) <= mass_tol * max(1.0, abs(y))
                else:
                    ok = x == y
                if not ok:
                    bad.append((f, "atom %s: %s is %r, expected %r" % (a["id"], f, x, y)))
            if check_pos:
                d = a["pos"] - b["pos"]
                if mod_cell is not None:
                    fr = d.dot(np.linalg.inv(mod_cell))
                    d = (fr - np.round(fr)).dot(mod_cell)
                if not np.all(np.abs(d) <= pos_tol):
                    bad.append(("pos", "atom %s: position %s, expected %s" % (a["id"], a["pos"], b["pos"])))
    if "extras" in fields and list(real.xlabels["atom"]) != list(pred.xlabels["atom"]):
        bad.append(("extra_labels", "extra atom labels %s, expected %s" % (real.xlabels["atom"], pred.xlabels["atom"])))
    for k in KNAMES:
        if term_extras and list(real.xlabels[k]) != list(pred.xlabels[k]):
            bad.append(("extra_labels", "extra %s labels %s, expected %s" % (k, real.xlabels[k], pred.xlabels[k])))
        rt = [(_canon(k, t[0]), t[1], tuple(sorted(t[2].items())) if term_extras else ()) for t in real.terms[k]]
        pt = [(_canon(k, t[0]), t[1], tuple(sorted(t[2].items())) if term_extras else ()) for t in pred.terms[k]]
        # text-typed terms: exact multiset; raw-typed: multiset of (tuple, extras) + consistent bijection of raw tokens
        rkey = sorted((repr(t[0]), repr(t[2])) for t in rt)
        pkey = sorted((repr(t[0]), repr(t[2])) for t in pt)
        if rkey != pkey:
            rs, ps = _multiset(rkey), _multiset(pkey)
            bad.append(("%s_terms" % k, "%s terms differ: unexpected %s; missing %s (real %d, predicted %d)" %
                        (k, _short([x for x in rs if rs[x] > ps.get(x, 0)]), _short([x for x in ps if ps[x] > rs.get(x, 0)]), len(rt), len(pt))))
            continue
        # pair up terms with equal (tuple, extras); compare tokens
        rmap, pmap = {}, {}
        for t in rt:
            rmap.setdefault((repr(t[0]), repr(t[2])), []).append(t[1])
        for t in pt:
            pmap.setdefault((repr(t[0]), repr(t[2])), []).append(t[1])
        fwd, back = {}, {}
        for key in rmap:
            rtoks = sorted(rmap[key], key=repr)
            ptoks = sorted(pmap[key], key=repr)
            for x, y in zip(rtoks, ptoks):
                if isinstance(x, tuple) and isinstance(y, tuple):
                    if fwd.setdefault(y, x) != x or back.setdefault(x, y) != y:
                        bad.append(("%s_type" % k, "%s term %s: raw type ids do not keep terms of one type together / apart (predicted class %s, real id %s)" % (k, key[0], y, x)))
                elif x != y:
                    bad.append(("%s_type" % k, "%s term %s resolves to %r, expected %r" % (k, key[0], x, y)))
    return bad


def _multiset(xs):
    d = {}
    for x in xs:
        d[x] = d.get(x, 0) + 1
    return d


def _short(xs, n=8):
    xs = list(xs)
    return str(xs[:n]) + ("...(%d)" % len(xs) if len(xs) > n else "")


def from_lammps(d, ids=None, raw_tag="R"):
    """Model of what a LAMMPS data file (parsed by vmon.oracle.lmpread, full style) states. Elements are not in the file."""
    m = Model()
    for i, row in enumerate(d["atoms"]):
        t = row["type"]
        mass = d["masses"].get(t, (MISSING, MISSING))
        pc = d["coeffs"]["Pair Coeffs"]
        if "Pair Coeffs" not in d["sections"]:
            pair = None
        elif t in pc:
            toks, com = pc[t]
            pair = " ".join(toks) + ((" # " + " ".join(com.split())) if com else "")
        else:
            pair = MISSING
        m.atoms.append({"id": row["q"] if ids is None else ids[i], "pos": np.array(row["pos"], float), "el": None, "label": mass[1], "mass": mass[0], "pair": pair,
                        "charge": row["q"], "group": (row["mol"] - 1) if row["mol"] is not None else None, "extras": {}})
    idl = [a["id"] for a in m.atoms]
    n = len(idl)
    for kind, sec, csec in (("bond", "Bonds", "Bond Coeffs"), ("angle", "Angles", "Angle Coeffs"), ("dihedral", "Dihedrals", "Dihedral Coeffs"), ("improper", "Impropers", "Improper Coeffs")):
        table = d["coeffs"][csec]
        for row in d["terms"][sec]:
            t = row["type"]
            if csec not in d["sections"]:
                tok = (raw_tag, t - 1)
            elif t in table:
                toks, com = table[t]
                tok = " ".join(toks) + ((" # " + " ".join(com.split())) if com else "")
            else:
                tok = MISSING
            m.terms[kind].append((tuple(idl[x - 1] if 1 <= x <= n else ("bad-index", x) for x in row["atoms"]), tok, {}))
    return m
