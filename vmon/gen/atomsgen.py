"""Generators of Atoms objects with force-field terms, tables, extra columns and unique ids."""
import itertools

import numpy as np

ELEMENT_POOL = ["C", "H", "O", "N", "Zr", "Cu", "F", "S", "Ni", "K", "I", "Ar"]     # incl. elements lighter than their predecessor in the table (Ni/Co, K/Ar, I/Te)
WIDTH = {"bond": 2, "angle": 3, "dihedral": 4, "improper": 4}
ARR = {"bond": "bonds", "angle": "angles", "dihedral": "dihedrals", "improper": "impropers"}
KNAMES = ["bond", "angle", "dihedral", "improper"]


def real_masses():
    from mofun.atomic_masses import ATOMIC_MASSES
    return ATOMIC_MASSES


def uid(base, i):
    """unique, exactly representable (also when printed with 6 decimals) id used as charge"""
    return base + i / 64.0 if base >= 0 else base - i / 64.0


def random_cell(rng, kind, scale=12.0):
    a, b, c = rng.uniform(0.8 * scale, 1.3 * scale, 3)
    if kind == "ortho":
        return np.diag([a, b, c])
    if kind == "tri":   # LAMMPS orientation, any tilt signs; one cell in three monoclinic / hexagonal-like: one or two tilt factors exactly zero
        xy, xz, yz = rng.uniform(-0.45, 0.45, 3) * np.array([a, a, b])
        if rng.integers(3) == 0:
            keep = [(1, 0, 0), (0, 1, 0), (0, 0, 1), (1, 1, 0), (1, 0, 1), (0, 1, 1)][int(rng.integers(6))]
            xy, xz, yz = xy * keep[0], xz * keep[1], yz * keep[2]
        return np.array([[a, 0, 0], [xy, b, 0], [xz, yz, c]])
    if kind == "tiny_tilt":    # almost orthorhombic, LAMMPS orientation: tilt factors between the printed precision (1e-6) and 1e-3
        cell = np.diag([a, b, c])
        for (i, j) in ((1, 0), (2, 0), (2, 1)):
            cell[i, j] = float(rng.choice([-1, 1])) * 10 ** rng.uniform(-5.3, -3.1)
        return cell
    if kind == "rotated_ortho":     # an orthorhombic box described in a rotated frame: all angles 90 degrees, vectors not along x, y, z
        from vmon.oracle.geometry import random_rotation
        r = int(rng.integers(4))
        if r == 0:       # a quarter turn about z / the axes listed in another order (y, z, x): exact, every angle exactly 90 degrees
            return [np.array([[0, a, 0], [-b, 0, 0], [0, 0, c]]), np.array([[0, a, 0], [0, 0, b], [c, 0, 0]])][int(rng.integers(2))]
        if r == 1:       # the sqrt(2) x sqrt(2) setting of a tetragonal cell: whole-number vectors at 45 degrees to x and y
            h = float(np.round(a / 1.5))
            return np.array([[h, h, 0], [-h, h, 0], [0, 0, float(np.round(c))]])
        return np.diag([a, b, c]).dot(random_rotation(rng).T)
    if kind == "rotated":
        from vmon.oracle.geometry import random_rotation
        xy, xz, yz = rng.uniform(-0.45, 0.45, 3) * np.array([a, a, b])
        base = np.array([[a, 0, 0], [xy, b, 0], [xz, yz, c]])
        return base.dot(random_rotation(rng).T)
    raise ValueError(kind)


def random_terms(rng, n, w, m):
    """m distinct w-tuples of distinct atoms out of n; no tuple equals another forwards or backwards"""
    out, seen = [], set()
    if n < w:
        return out
    tries = 0
    while len(out) < m and tries < 50 * m + 50:
        tries += 1
        t = tuple(int(x) for x in rng.choice(n, size=w, replace=False))
        if t in seen or tuple(reversed(t)) in seen:
            continue
        seen.add(t)
        out.append(t)
    return out


def gen_atoms(rng, n, tag="S", id_base=1000.0, cell="ortho", kinds=None, tables=None, extras=None, pair=None,
              n_types=None, max_terms=4, span=None, labels_with_comment=False, unused_types=False, scale=12.0, shared_elements=None):
    """Build a real mofun Atoms object.
    kinds:  {kind: number of terms} (default random 0..max_terms)
    tables: {kind: bool} coefficient table present? (default random; a table is present only if the kind has terms,
            unless tables says otherwise)
    extras: {kind or 'atom': [labels]} extra columns (default random subset)
    pair:   bool, pair table present (default random)
    """
    from mofun import Atoms
    masses = real_masses()
    nt = int(n_types or rng.integers(1, 4))
    # one case in three: several atom types share an element (force-field types such as C_R / C_3), as in LAMMPS-typed files
    share = bool(rng.integers(3) == 0) if shared_elements is None else shared_elements
    type_el = [ELEMENT_POOL[int(i)] for i in rng.choice(len(ELEMENT_POOL) if not share else max(1, nt - 1), size=nt, replace=share)]
    kw = {}
    cellm = None
    if cell is not None:
        cellm = cell if isinstance(cell, np.ndarray) else random_cell(rng, cell, scale=scale)
        pos = rng.uniform(0.02, 0.98, (n, 3)).dot(cellm)
        kw["cell"] = cellm
    else:
        pos = rng.uniform(-1.0, 1.0, (n, 3)) * (span or 3.0)
    atom_types = [int(x) for x in rng.integers(0, nt, n)]
    if n >= nt and not unused_types:
        for t in range(nt):       # every type in use
            atom_types[t] = t
    kw.update(atom_types=atom_types if n > 0 else [], positions=pos if n > 0 else [],
              atom_type_elements=type_el, atom_type_masses=[masses[e] for e in type_el],
              # when types share an element, half of the time they also share the label (the element symbol, as after loading a file
              # without label comments): the types then differ only in what their id resolves to in the pair table
              atom_type_labels=(list(type_el) if (share and len(set(type_el)) < len(type_el) and rng.integers(2)) else ["%s_%s%d" % (tag, e, t) for t, e in enumerate(type_el)]),
              charges=[uid(id_base, i) for i in range(n)], groups=[int(x) for x in rng.integers(0, 3, n)])
    if pair if pair is not None else bool(rng.integers(2)):
        kw["pair_coeffs"] = ["%s_pair_%d 0.%d 3.%d" % (tag, t, t + 1, t) + (" # %s%d" % (tag, t) if labels_with_comment else "") for t in range(nt)]
    xl = extras if extras is not None else {}
    for kind in KNAMES:
        m = kinds.get(kind, 0) if kinds is not None else int(rng.integers(0, max_terms + 1))
        terms = random_terms(rng, n, WIDTH[kind], m)
        # default: a table for half of the kinds that have terms and for a quarter of those that have none
        has_table = tables.get(kind) if (tables is not None and kind in tables) else (bool(rng.integers(2)) if terms else rng.integers(4) == 0)
        if terms:
            k = int(rng.integers(1, 4))
            types = [int(x) for x in rng.integers(0, k, len(terms))]
            ntab = k + (1 if unused_types else 0)
            kw[ARR[kind]] = terms
            kw["%s_types" % kind] = types
            if has_table:
                kw["%s_type_coeffs" % kind] = ["%s_%s_%d 1.%d" % (tag, kind, t, t) + (" # c%s%d" % (tag, t) if labels_with_comment else "") for t in range(ntab)]
        elif has_table:
            k = int(rng.integers(1, 3))
            kw["%s_type_coeffs" % kind] = ["%s_%s_%d 1.%d" % (tag, kind, t, t) for t in range(k)]
        labs = xl.get(kind) if kind in xl else ([l for l in ["_x_%s_a" % kind, "_x_%s_%s" % (kind, tag)] if rng.integers(3) == 0] if extras is None else [])
        if labs:
            kw["extra_%s_labels" % kind] = list(labs)
            if terms:
                # values of different lengths (1-9 characters): fixed-width string arrays must not truncate what they adopt
                kw["extra_%s_fields" % kind] = [[("%s%s%d%s" % (tag, kind[0], r, l[-1]))[: 1 + (r + len(l)) % 4] + "y" * int(rng.integers(0, 6)) for l in labs] for r in range(len(terms))]
    labs = xl.get("atom") if "atom" in xl else ([l for l in ["_x_atom_a", "_x_atom_%s" % tag] if rng.integers(3) == 0] if extras is None else [])
    if labs:
        kw["extra_atom_labels"] = list(labs)
        if n > 0:
            kw["extra_atom_fields"] = [[("%sa%d%s" % (tag, i, l[-1]))[: 1 + (i + len(l)) % 4] + "z" * int(rng.integers(0, 6)) for l in labs] for i in range(n)]
    return Atoms(**kw)


def describe(a):
    """small JSON-able description of an Atoms object for samples/witnesses"""
    d = {"n": len(a), "elements": [str(a.atom_type_elements[int(t)]) if int(t) < len(a.atom_type_elements) else "?" for t in a.atom_types][:12], "atom_types": [int(x) for x in a.atom_types][:12],
         "n_atom_types": len(a.atom_type_elements), "pair_table": len(a.pair_coeffs),
         "cell": None if a.cell is None else np.round(np.asarray(a.cell, float), 4).tolist()}
    for kind in KNAMES:
        d[kind] = {"terms": [[int(x) for x in t] for t in np.asarray(getattr(a, ARR[kind])).reshape(-1, WIDTH[kind])][:8],
                   "types": [int(x) for x in getattr(a, "%s_types" % kind)][:8], "table": len(getattr(a, "%s_type_coeffs" % kind)),
                   "extra_labels": list(getattr(a, "extra_%s_labels" % kind))}
    d["extra_atom_labels"] = list(a.extra_atom_labels)
    return d


def all_subsets(n):
    for r in range(1, n + 1):
        for c in itertools.combinations(range(n), r):
            yield c


def partial_injections(n_other, n_self, max_size=None):
    """all maps {other index -> self index} that are injective, incl. the empty one"""
    out = [{}]
    for r in range(1, min(n_other, n_self, max_size if max_size is not None else 99) + 1):
        for src in itertools.combinations(range(n_other), r):
            for dst in itertools.permutations(range(n_self), r):
                out.append(dict(zip(src, dst)))
                if r >= 2:
                    # the same declaration written down in the opposite order (dict insertion order is not part of its meaning)
                    out.append(dict(zip(reversed(src), reversed(dst))))
    return out
