"""Search-pattern generators: small molecules by symmetry class."""
import numpy as np

from vmon.oracle import geometry as G

CLASSES = ["single", "pair_hetero", "pair_homo", "collinear3", "planar_d3h", "pyramid_c3v", "twofold", "asym4", "asym5", "asym6", "chiral4", "chiral5", "planar_mirror_pair", "flat_polygon"]


SPECIAL_DIRECTIONS = [(1, 1, 1), (1, 1, 1), (1, 1, 1), (1, 1, -1), (1, -1, 1), (-1, 1, 1), (1, 1, 0), (1, 0, 1), (0, 1, 1), (1, -1, 0), (1, 0, -1), (1, 2, 1), (2, 1, 2), (1, -2, 1),
                      (1, 2, 3), (3, 1, 2), (1, 1, 2), (2, 2, 1)]


def _min_dist(pos):
    pos = np.asarray(pos, float)
    if len(pos) < 2:
        return np.inf
    d = np.sqrt(((pos[:, None, :] - pos[None, :, :]) ** 2).sum(-1))
    return d[np.triu_indices(len(pos), 1)].min()


def make(rng, cls):
    """-> dict(cls, elements, positions (n,3), chiral: bool, continuous_symmetry: None|'point'|'line')"""
    cont = None
    chiral = False
    if cls == "single":
        els, pos, cont = ["Zr"], np.zeros((1, 3)), "point"
    elif cls == "pair_hetero":
        els, pos, cont = ["C", "O"], np.array([[0, 0, 0], [rng.uniform(1.1, 1.6), 0, 0]]), "line"
    elif cls == "pair_homo":
        els, pos, cont = ["N", "N"], np.array([[0, 0, 0], [rng.uniform(1.1, 1.6), 0, 0]]), "line"
    elif cls == "collinear3":
        d1, d2 = rng.uniform(1.1, 1.5, 2)
        if rng.integers(2):
            els, d2 = ["O", "C", "O"], d1      # symmetric
        else:
            els = ["N", "C", "S"]
        pos, cont = np.array([[-d1, 0, 0], [0, 0, 0], [d2, 0, 0]]), "line"
    elif cls == "nearly_linear3":
        # three atoms almost, but not quite, in a line (a cyanate / thiocyanate / azide-like unit drawn with a slight bend)
        d1, d2 = rng.uniform(1.6, 3.0, 2)
        els = ["N", "C", "S"]
        pos = np.array([[-d1, 0, 0], [0, rng.uniform(0.03, 0.15), 0], [d2, 0, 0]])
    elif cls == "planar_d3h":
        r = rng.uniform(1.2, 1.6)
        els = ["B", "F", "F", "F"]
        pos = np.array([[0, 0, 0]] + [[r * np.cos(a), r * np.sin(a), 0] for a in (0, 2 * np.pi / 3, 4 * np.pi / 3)])
    elif cls == "pyramid_c3v":
        r, h = rng.uniform(0.9, 1.3), rng.uniform(0.5, 0.9)
        els = ["N", "H", "H", "H"]
        pos = np.array([[0, 0, h]] + [[r * np.cos(a), r * np.sin(a), 0] for a in (0, 2 * np.pi / 3, 4 * np.pi / 3)])
    elif cls == "twofold":
        r, ang = rng.uniform(0.95, 1.3), np.radians(rng.uniform(100, 125))
        els = ["O", "H", "H"]
        pos = np.array([[0, 0, 0], [r, 0, 0], [r * np.cos(ang), r * np.sin(ang), 0]])
    elif cls in ("asym4", "asym5", "asym6"):
        n = int(cls[-1])
        pool = ["C", "N", "O", "S", "Cl", "P", "H"]
        best = None
        for attempt in range(4000):
            pos = rng.uniform(-1.9, 1.9, (n, 3))
            els = [pool[int(i)] for i in rng.integers(0, len(pool), n)]
            if _min_dist(pos) < 1.0:          # hard requirement: atoms of a molecule are never closer than this
                continue
            D = np.sqrt(((pos[:, None, :] - pos[None, :, :]) ** 2).sum(-1))
            dd = np.sort(D[np.triu_indices(n, 1)])
            # keep all pair distances apart (no accidental symmetry); the margin is relaxed if it cannot be met
            margin = 0.08 if attempt < 1500 else (0.04 if attempt < 3000 else 0.0)
            if np.diff(dd).min() < margin or abs(G.chirality(pos)) < 0.6:
                if best is None:
                    best = (els, pos)
                continue
            best = (els, pos)
            break
        els, pos = best
        chiral = True
    elif cls == "planar_mirror_pair":
        # four or five coplanar atoms without in-plane symmetry, then two like atoms that mirror each other across that plane
        # (a methyl/methylene on a ring): distances to the coplanar atoms cannot tell the two apart
        m = int(rng.integers(4, 6))
        ang = np.sort(rng.uniform(0, 2 * np.pi, m)) + np.arange(m) * 0.35
        rad = rng.uniform(1.1, 1.9, m)
        ring = np.stack([rad * np.cos(ang), rad * np.sin(ang), np.zeros(m)], axis=1)
        for _ in range(200):
            if _min_dist(ring) >= 1.0:
                break
            ang = np.sort(rng.uniform(0, 2 * np.pi, m)) + np.arange(m) * 0.35
            ring = np.stack([rad * np.cos(ang), rad * np.sin(ang), np.zeros(m)], axis=1)
        base = ring[0] * (1 + 1.0 / np.linalg.norm(ring[0]))
        h = rng.uniform(0.7, 1.0)
        pair = np.array([base + [0, 0, h], base + [0, 0, -h]])
        els = [["C", "N", "C", "O", "S"][i] for i in range(m)] + ["H", "H"]
        pos = np.vstack([ring, pair])
        if rng.integers(3) == 0:       # the pair listed first
            els = els[m:] + els[:m]
            pos = np.vstack([pair, ring])
    elif cls == "flat_polygon":
        # a planar, asymmetric molecule as an editor exports it: lying exactly in a coordinate plane (z = const, or x / y),
        # first atom at one end of its longest distance
        m = int(rng.integers(3, 6))
        for _ in range(500):
            ang = np.sort(rng.uniform(0, 2 * np.pi, m))
            rad = rng.uniform(1.0, 2.0, m)
            flat = np.stack([rad * np.cos(ang), rad * np.sin(ang)], axis=1)
            D = np.sqrt(((flat[:, None, :] - flat[None, :, :]) ** 2).sum(-1))
            dd = np.sort(D[np.triu_indices(m, 1)])
            if dd.min() >= 1.0 and np.diff(dd).min() > 0.06:
                break
        i, j = [int(x) for x in np.unravel_index(np.argmax(D), D.shape)]
        order = [i] + [k for k in range(m) if k not in (i, j)] + [j]
        flat = flat[order]
        els = ["C", "N", "O", "S", "P"][:m]
        plane = int(rng.integers(3))
        pos = np.insert(flat, plane, float(np.round(rng.uniform(-2, 2), 1)), axis=1)
        pos[:, [a for a in range(3) if a != plane]] += np.round(rng.uniform(-2, 2, 2), 1)
        return {"cls": cls, "elements": els, "positions": pos, "chiral": False, "continuous_symmetry": None, "frame": "coordinate_plane_%s" % "xyz"[plane]}
    elif cls == "close_pair":
        # a pattern with two same-element atoms closer to each other than the larger tolerances (0.2, 0.5): one structure
        # atom then satisfies every distance test for both of them - the search must still list distinct atoms
        els = ["N", "C", "H", "H", "O"]
        d = rng.uniform(0.12, 0.19)
        pos = np.array([[0, 0, 0], [1.3, 0.2, 0], [0.4, 1.1, 0.3], [0.4 + d, 1.1, 0.3], [-0.9, -0.7, 0.8]], float)
        chiral = True
    elif cls in ("chiral4", "chiral5"):
        # a centre with distinct substituents in roughly tetrahedral directions
        dirs = np.array([[1, 1, 1], [1, -1, -1], [-1, 1, -1], [-1, -1, 1]], float) / np.sqrt(3)
        lens = rng.uniform(1.0, 1.9, 4)
        subs = ["H", "F", "Cl", "Br"]
        if cls == "chiral4":
            els = ["C"] + subs[:3]
            pos = np.vstack([[0, 0, 0]] + [dirs[i] * lens[i] for i in range(3)])
        else:
            els = ["C"] + subs
            pos = np.vstack([[0, 0, 0]] + [dirs[i] * lens[i] for i in range(4)])
        chiral = True
    else:
        raise ValueError(cls)
    pos = np.asarray(pos, float)
    frame = "random"
    r = int(rng.integers(3))
    if r == 0 and len(pos) >= 2:
        # special frame: the search axis (farthest pair, lower index -> higher index, as the library picks it) lies along a
        # signed coordinate axis, as for patterns drawn by hand or exported from an editor
        D = ((pos[:, None, :] - pos[None, :, :]) ** 2).sum(-1)
        i, j = [int(x) for x in np.unravel_index(np.argmax(D), D.shape)]
        k = int(rng.integers(3))
        sgn = 1.0 if rng.integers(2) else -1.0
        target = sgn * np.eye(3)[k]
        special = None
        if rng.integers(5) < 2:
            # ... or along a body diagonal, a face diagonal or another direction with small whole-number components (a linker lying
            # along [111] or [110] of a cubic framework, cut out without re-orienting it). The axis vector is exact: a multiple of
            # 1/64 times whole numbers, the first axis atom on a 1/4 grid - so that v, roll(v), v[::-1], |v| all show their
            # coincidences (equal components, palindromes, a zero component) exactly
            special = SPECIAL_DIRECTIONS[int(rng.integers(len(SPECIAL_DIRECTIONS)))]
            special = tuple(int(c) for c in np.array(special) * (1 if rng.integers(2) else -1))
            target = np.array(special, float) / np.linalg.norm(special)
        pos = (pos - pos[i]).dot(G.rotation_taking(pos[j] - pos[i], target).T)
        pos = pos.dot(G.rotation_about(target, rng.uniform(0, 2 * np.pi)).T)
        if special is None:
            pos[j] = np.linalg.norm(pos[j]) * target          # exactly on the axis
            frame = "axis%s%s" % ("+" if sgn > 0 else "-", "xyz"[k])
            pos = pos + np.round(rng.uniform(-2, 2, 3), 1)
        else:
            q = max(1.0, np.round(np.linalg.norm(pos[j]) / np.linalg.norm(special) * 64)) / 64.0
            pos[i] = 0.0
            pos[j] = q * np.array(special, float)
            frame = "direction[%d%d%d]" % tuple(abs(c) for c in special)
            pos = pos + np.round(rng.uniform(-2, 2, 3) * 4) / 4
    elif r == 1:
        # a proper signed permutation of the axes (exact), no other rotation
        perms = [np.array(m) for m in ([[1, 0, 0], [0, 1, 0], [0, 0, 1]], [[0, 1, 0], [0, 0, 1], [1, 0, 0]], [[-1, 0, 0], [0, -1, 0], [0, 0, 1]],
                                       [[0, -1, 0], [1, 0, 0], [0, 0, 1]], [[1, 0, 0], [0, 0, -1], [0, 1, 0]], [[0, 0, 1], [0, -1, 0], [1, 0, 0]])]
        pos = pos.dot(perms[int(rng.integers(len(perms)))].T.astype(float)) + np.round(rng.uniform(-2, 2, 3), 1)
        frame = "signed_permutation"
    else:
        # random rigid motion so the stored pattern is in no special frame
        pos = pos.dot(G.random_rotation(rng).T) + rng.uniform(-2, 2, 3)
    return {"cls": cls, "elements": list(els), "positions": pos, "chiral": chiral, "continuous_symmetry": cont, "frame": frame}


def to_atoms(p, id_base=-1.0, unused_type=False, table_order=None, **kw):
    """table_order='reversed': the pattern carries explicit atom types whose table lists the elements in the reverse order of their
    first appearance (a pattern read from a typed data file, or cut from a structure with structure[indices], which keeps the
    structure's table): its first atom is then not of the first type.
    unused_type: the pattern object is what is left of a larger fragment after an atom of another element (one the structure
    does not contain) was deleted from it - its type table keeps an entry that no atom uses"""
    from mofun import Atoms
    n = len(p["elements"])
    if table_order == "reversed" and n >= 1 and not kw:
        from mofun.atomic_masses import ATOMIC_MASSES
        els = list(p["elements"])
        table = list(dict.fromkeys(reversed(els)))
        return Atoms(atom_types=[table.index(e) for e in els], positions=np.array(p["positions"], float), atom_type_elements=table,
                     atom_type_masses=[ATOMIC_MASSES[e] for e in table], atom_type_labels=["%s_t" % e for e in table],
                     charges=[id_base - i / 64.0 for i in range(n)])
    if unused_type and n >= 1 and not kw:
        pos = np.array(p["positions"], float)
        a = Atoms(elements=list(p["elements"]) + ["Fr"], positions=np.vstack([pos, pos.mean(0) + [7.0, 5.0, 3.0]]),
                  charges=[id_base - i / 64.0 for i in range(n + 1)])
        del a[[n]]
        return a
    return Atoms(elements=list(p["elements"]), positions=np.array(p["positions"], float),
                 charges=[id_base - i / 64.0 for i in range(n)], **kw)


def mirror(pos):
    pos = np.asarray(pos, float).copy()
    pos[:, 0] *= -1
    return pos


def valid_hint_sets(p, rng, k=4):
    """hint triples (axisp1, axisp2, opoint) that are inside the property's quantifier, incl. index 0.
    Validity is established with the harness's own geometry after the documented auto-completion."""
    pos = np.asarray(p["positions"], float)
    n = len(pos)
    out = [(None, None, None)]
    if n < 2:
        return out
    D = np.sqrt(((pos[:, None, :] - pos[None, :, :]) ** 2).sum(-1))

    def off_axis(a1, a2, o):
        ax = pos[a2] - pos[a1]
        v = pos[o] - pos[a1]
        return np.linalg.norm(v - ax * np.dot(v, ax) / np.dot(ax, ax))

    def unique_argmax(row, margin=0.05):
        s = np.sort(row)
        return len(s) < 2 or s[-1] - s[-2] > margin

    def auto_opoint(a1, a2):
        d = [off_axis(a1, a2, o) for o in range(n)]
        return int(np.argmax(d)), d

    cands = []
    pairs = [(i, j) for i in range(n) for j in range(n) if i != j]
    for _ in range(60):
        a1, a2 = pairs[int(rng.integers(len(pairs)))]
        if n == 2:
            cands.append((a1, a2, None))
            continue
        o_auto, d = auto_opoint(a1, a2)
        if max(d) < 0.2:
            cands.append((a1, a2, None))      # collinear: no orientation needed
            continue
        sd = sorted(d)
        if sd[-1] - sd[-2] > 0.05 or True:
            cands.append((a1, a2, None))
        o = int(rng.integers(n))
        if o not in (a1, a2) and d[o] >= 0.2:
            cands.append((a1, a2, o))
    # one axis point only (either keyword), incl. index 0: the other is the atom farthest from it
    for a in range(n):
        if unique_argmax(D[a]):
            far = int(np.argmax(D[a]))
            if n == 2 or max(auto_opoint(a, far)[1]) >= 0.2 or max(auto_opoint(a, far)[1]) < 1e-9:
                cands.append((a, None, None))
                cands.append((None, a, None))
    # orientation point alone: the auto axis is the farthest pair, must be unique by a margin
    if n > 2:
        flat = np.sort(D[np.triu_indices(n, 1)])
        if len(flat) < 2 or flat[-1] - flat[-2] > 0.05:
            i, j = np.unravel_index(np.argmax(D), D.shape)
            for o in range(n):
                if o not in (i, j) and off_axis(i, j, o) >= 0.2:
                    cands.append((None, None, o))
    # one axis point (either keyword) together with an orientation point: the second axis point is the atom farthest from the
    # given one (unique by a margin), the orientation point any third atom off that axis; the given axis index above and below
    # the orientation index
    mixed = []
    if n > 2:
        for a in range(n):
            if not unique_argmax(D[a]):
                continue
            far = int(np.argmax(D[a]))
            for o in range(n):
                if o not in (a, far) and off_axis(a, far, o) >= 0.2:
                    mixed.append((a, None, o))
                    mixed.append((None, a, o))
    seen = []
    for c in cands:
        if c not in seen:
            seen.append(c)
    # always offer index-0 hints when valid
    single0 = [c for c in seen if c in ((0, None, None), (None, 0, None))]
    zero = [c for c in seen if (c[0] == 0 or c[1] == 0 or c[2] == 0) and c not in single0]
    rest = [c for c in seen if c not in zero and c not in single0]
    rng.shuffle(rest)
    rng.shuffle(zero)
    if mixed:
        above = [c for c in mixed if (c[0] if c[0] is not None else c[1]) > c[2]]
        below = [c for c in mixed if c not in above]
        pick = []
        for grp in (above, below):
            if grp:
                pick.append(grp[int(rng.integers(len(grp)))])
        mixed = pick
    return out + single0 + zero[:1] + rest[:k] + mixed
