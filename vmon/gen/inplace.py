"""In-place edits of a live Atoms object between two calls of the operation under observation.

A user may change an object's arrays where they are (`s.translate(d)`, `s.positions[i] += v`, `s.cell[2, 2] += 10`,
`s.atom_type_labels[k] = 'C_R'`): the array objects keep their identity, so anything the library remembered about the
object from an earlier call (a memo keyed by `id()` / `is`, a lazily filled attribute) is stale afterwards. Every oracle of
the harness reads the object's public arrays at the time of the judged call, so these edits need no bookkeeping: the
second call is simply judged against the state it was made on.
"""
import numpy as np

from vmon.oracle import geometry as G

EDITS = ["translate_wrap", "move_atom", "swap_positions", "retype_atom"]


def edit_structure(rng, atoms, kind=None, keep_ids=True):
    """applies one in-place edit, keeps every array object's identity. -> description"""
    kind = kind or EDITS[int(rng.integers(len(EDITS)))]
    n = len(atoms)
    cell = np.array(atoms.cell, float)
    ids = {k: id(getattr(atoms, k)) for k in ("positions", "atom_types", "cell")}
    if kind == "translate_wrap" or n < 2:
        delta = rng.uniform(-0.5, 0.5, 3).dot(cell)
        atoms.translate(delta)                               # mofun's own in-place `positions += delta`
        atoms.positions[:] = G.wrap(cell, np.asarray(atoms.positions, float))
        desc = ("translate_wrap", np.round(delta, 4).tolist())
    elif kind == "move_atom":
        i = int(rng.integers(n))
        v = rng.normal(size=3)
        v = v / np.linalg.norm(v) * rng.uniform(0.6, 1.4)
        atoms.positions[i] += v
        atoms.positions[:] = G.wrap(cell, np.asarray(atoms.positions, float))
        desc = ("move_atom", i, np.round(v, 4).tolist())
    elif kind == "swap_positions":
        i, j = (int(x) for x in rng.choice(n, 2, replace=False))
        atoms.positions[[i, j]] = atoms.positions[[j, i]]
        desc = ("swap_positions", i, j)
    else:
        i, j = (int(x) for x in rng.choice(n, 2, replace=False))
        atoms.atom_types[i] = atoms.atom_types[j]
        desc = ("retype_atom", i, "type of", j)
    if keep_ids:
        for k, v in ids.items():
            assert id(getattr(atoms, k)) == v, "harness error: %s was rebound by an in-place edit" % k
    return desc


def rebuild(atoms):
    """a new Atoms object with the same public content, made through the constructor (so it carries nothing an earlier
    call may have left on `atoms`; copy.deepcopy would carry such leftovers along)"""
    from mofun import Atoms
    kw = {}
    for k in ("atom_types", "positions", "charges", "groups", "cell", "atom_type_masses", "atom_type_elements", "atom_type_labels",
              "bonds", "bond_types", "angles", "angle_types", "dihedrals", "dihedral_types", "impropers", "improper_types",
              "pair_coeffs", "bond_type_coeffs", "angle_type_coeffs", "dihedral_type_coeffs", "improper_type_coeffs",
              "extra_atom_labels", "extra_atom_fields", "extra_bond_labels", "extra_bond_fields", "extra_angle_labels", "extra_angle_fields",
              "extra_dihedral_labels", "extra_dihedral_fields", "extra_improper_labels", "extra_improper_fields"):
        if hasattr(atoms, k):
            v = getattr(atoms, k)
            kw[k] = None if v is None else np.array(v, copy=True) if isinstance(v, np.ndarray) else list(v)
    return Atoms(**kw)
