"""Replacement patterns and the observation of one real replace_pattern_in_structure call."""
import numpy as np

from vmon import events
from vmon.oracle import geometry as G

REPL_KINDS = ["empty", "smaller_shared", "smaller_disjoint", "equal_substitution", "equal_identical", "equal_partial", "larger_shared", "larger_disjoint", "far_reaching", "nudged"]
# "nudged": an atom of the search pattern reappears in the replacement with the same element but displaced by a small, clearly
# non-zero amount (a corrected bond length): it is NOT common to both patterns (common = same element, same coordinates)
NUDGES = [2e-5, 3e-5, 6e-5, 3e-4, 1e-3, 0.02, 0.08]
NEW_ELEMENTS = ["Si", "Ge", "Se", "Hf", "Ti", "Al", "C", "O", "N"]


def make_replacement(rng, pat, kind, reach=2.5):
    """replacement pattern in the search pattern's frame -> dict(elements, positions, shared_search, kind)
    shared_search: indices j of the search pattern that reappear (same element, same coordinates) in the replacement."""
    ppos = np.asarray(pat["positions"], float)
    pels = list(pat["elements"])
    n = len(pels)
    as_written = bool(rng.integers(4) == 0)
    if as_written:
        # both patterns as two files written by different programs hold them: one atom at the origin (exact zeros), the common
        # atoms of the replacement with -0.0 where the search pattern has 0.0 and with the last printed digit's noise (< 5e-7)
        ppos = ppos - ppos[int(rng.integers(n))]
        pat["positions"] = ppos
    cen = ppos.mean(0)
    els, pos, shared = [], [], []

    def add_new(m, radius):
        for _ in range(m):
            for _ in range(200):
                p = cen + rng.normal(size=3) * radius / 1.7
                if np.linalg.norm(p - cen) > radius:
                    continue
                if pos and np.linalg.norm(np.array(pos) - p, axis=1).min() < 0.8:
                    continue
                if np.linalg.norm(ppos - p, axis=1).min() < 0.4:
                    continue
                els.append(NEW_ELEMENTS[int(rng.integers(len(NEW_ELEMENTS)))])
                pos.append(p)
                break

    def keep(idx):
        for j in idx:
            els.append(pels[j])
            q = ppos[j].copy()
            if as_written:
                q = q + rng.uniform(-4e-7, 4e-7, 3) * (q != 0.0)
                q[q == 0.0] = -0.0
            pos.append(q)
            shared.append(int(j))

    if kind == "empty":
        pass
    elif kind == "smaller_shared":
        if n > 1:
            keep(sorted(int(x) for x in rng.choice(n, size=int(rng.integers(1, n)), replace=False)))
        else:
            kind = "empty"
    elif kind == "smaller_disjoint":
        add_new(max(1, n - 1) if n > 1 else 1, reach)
    elif kind == "equal_substitution":
        # same coordinates, at least one element changed
        j = int(rng.integers(n))
        table = {"C": "Si", "O": "S", "N": "P", "H": "F", "Zr": "Hf", "Cl": "C", "Br": "B", "Si": "S"}      # (the last three: a substitute that the replaced symbol begins with)
        if rng.integers(2):
            # substitutes whose symbols begin with the symbol they replace: another element at the same place all the same
            table = {"C": "Cl", "O": "Os", "N": "Ni", "H": "He", "S": "Sn", "B": "Br", "F": "Fe", "P": "Pt", "Zr": "Zn"}
        for i in range(n):
            if i == j or rng.integers(4) == 0:
                els.append(table.get(pels[i], "Ge"))
                pos.append(ppos[i].copy())
            else:
                keep([i])
    elif kind == "equal_identical":
        keep(range(n))
    elif kind == "equal_partial":
        k = int(rng.integers(0, n))
        keep(sorted(rng.choice(n, size=k, replace=False)))
        add_new(n - k, reach)
    elif kind == "larger_shared":
        keep(sorted(rng.choice(n, size=int(rng.integers(1, n + 1)), replace=False)))
        add_new(n - len(els) + int(rng.integers(1, 4)), reach)
    elif kind == "larger_disjoint":
        add_new(n + int(rng.integers(1, 3)), reach)
    elif kind == "far_reaching":
        keep(sorted(rng.choice(n, size=int(rng.integers(0, n + 1)), replace=False)))
        add_new(int(rng.integers(2, 5)), 6.0)
    elif kind == "nudged":
        moved = sorted(int(x) for x in rng.choice(n, size=int(rng.integers(1, min(n, 2) + 1)), replace=False))
        for i in range(n):
            if i in moved:
                mag = NUDGES[int(rng.integers(len(NUDGES)))]
                v = rng.normal(size=3)
                if rng.integers(2):
                    v = np.array([1.0, 1.0, 1.0]) * rng.choice([-1, 1], 3)     # equal components: the norm is sqrt(3) x each
                v = v / np.linalg.norm(v) * mag
                els.append(pels[i])
                pos.append(ppos[i] + v)
            elif rng.integers(3):
                keep([i])
        if rng.integers(2):
            add_new(1, reach)
    else:
        raise ValueError(kind)
    # shuffle the replacement's atom order: it need not follow the search pattern's
    order = rng.permutation(len(els))
    els = [els[i] for i in order]
    pos = [pos[i] for i in order]
    return {"kind": kind, "elements": els, "positions": np.array(pos, float).reshape(-1, 3)}


def shared_pairs(pat, rep, tol=1e-5):
    """harness's own statement of 'atoms common to both patterns': {replacement index: search index}"""
    out = {}
    ppos = np.asarray(pat["positions"], float)
    for i, (e, p) in enumerate(zip(rep["elements"], np.asarray(rep["positions"], float).reshape(-1, 3))):
        for j, (e2, p2) in enumerate(zip(pat["elements"], ppos)):
            if e == e2 and np.linalg.norm(p - p2) < tol:
                out[i] = j
                break
    return out


def rep_to_atoms(rep, id_base=-100.0, **kw):
    from mofun import Atoms
    n = len(rep["elements"])
    if n == 0:
        return Atoms()
    return Atoms(elements=list(rep["elements"]), positions=np.array(rep["positions"], float), charges=[id_base - i / 64.0 for i in range(n)],
                 groups=[7] * n, **kw)


def observe_replace(structure, search, replace, seed, _positional=False, **kwargs):
    """run the real replacement with events recorded -> dict(result|exception, found, positions, quats, selected, extends, deleted, before)"""
    import mofun
    events.seed_all(seed)
    n0 = len(events.LOG)
    out = {"exception": None, "result": None, "num_matches": None}
    try:
        if _positional:
            # every option by position, in the documented order of the signature
            order = ["replace_fraction", "atol", "axisp1_idx", "axisp2_idx", "opoint_idx", "return_num_matches", "replace_all", "verbose"]
            defaults = {"replace_fraction": 1.0, "atol": 5e-2, "axisp1_idx": None, "axisp2_idx": None, "opoint_idx": None, "return_num_matches": False, "replace_all": False, "verbose": False}
            rest = {k: v for k, v in kwargs.items() if k not in order}
            res = mofun.replace_pattern_in_structure(structure, search, replace, *[kwargs.get(k, defaults[k]) for k in order], **rest)
        else:
            res = mofun.replace_pattern_in_structure(structure, search, replace, **kwargs)
        if isinstance(res, tuple):
            out["result"], out["num_matches"] = res
        else:
            out["result"] = res
    except Exception as e:
        if type(e).__name__ == "PostBroken":
            raise
        out["exception"] = e
    log = events.LOG[n0:]
    finds = [e for e in log if e["ev"] == "find.ret"]
    out["search_observed"] = bool(finds)
    if not finds and not [e for e in log if e["ev"] in ("find.call", "find.raise")]:
        # the replacement did not go through the public search function (it may use a helper of its own): the matches it worked on
        # are then taken from the public search run on the same inputs from the same state of the random generators
        n1 = len(events.LOG)
        try:
            events.seed_all(seed)
            mofun.find_pattern_in_structure(structure, search, atol=kwargs.get("atol", 5e-2), axisp1_idx=kwargs.get("axisp1_idx"), axisp2_idx=kwargs.get("axisp2_idx"),
                                            opoint_idx=kwargs.get("opoint_idx"), return_positions_and_quats=True)
            finds = [e for e in events.LOG[n1:] if e["ev"] == "find.ret"]
        except Exception:
            finds = []
        finally:
            del events.LOG[n1:]
    out["found"] = finds[-1]["matches"] if finds else None
    out["found_positions"] = finds[-1]["positions"] if finds else None
    out["quats"] = finds[-1]["quats"] if finds else None
    out["search_positions_seen_by_find"] = finds[-1]["pattern_positions"] if finds else None
    # the options the caller gave, and the ones the search made on his behalf actually ran with
    out["plumbing"] = [] if out["search_observed"] else None
    if finds and out["search_observed"]:
        want_atol = kwargs.get("atol", 5e-2)
        want_hints = tuple(kwargs.get(k) for k in ("axisp1_idx", "axisp2_idx", "opoint_idx"))
        if finds[-1]["atol"] is None or abs(float(finds[-1]["atol"]) - float(want_atol)) > 1e-15:
            out["plumbing"].append("the replacement was asked for with tolerance %r, the search made for it ran with %r" % (want_atol, finds[-1]["atol"]))
        if tuple(finds[-1]["hints"]) != want_hints:
            out["plumbing"].append("the replacement was asked for with the hints %r, the search made for it ran with %r" % (want_hints, tuple(finds[-1]["hints"])))
    samples = [e for e in log if e["ev"] == "sample"]
    out["sample"] = samples[-1] if samples else None
    if out["found"] is not None:
        out["selected"] = list(range(len(out["found"]))) if not samples else list(samples[-1]["picked"])
    else:
        out["selected"] = None
    # is the selection known? (a fraction below 1 and no draw seen at the one site the harness can script: the code may draw
    # its selection in another way - then the selection is inferred from the outcome, or left open)
    frac = kwargs.get("replace_fraction", 1.0)
    out["selection_known"] = bool(samples) or frac is None or float(frac) >= 1.0 or not out["found"]
    ends = [e for e in log if e["ev"] in ("replace.raise", "replace.ret")]
    out["drawn_after_search"] = None
    if finds and ends and finds[-1].get("rng") is not None and ends[-1].get("rng") is not None:
        out["drawn_after_search"] = finds[-1]["rng"] != ends[-1]["rng"]
    if not out["selection_known"] and out["result"] is not None:
        sel = infer_selection(structure, out["result"], out["found"]) if _every_match_loses_an_atom(search, replace, kwargs) else None
        if sel is not None:
            out["selected"], out["selection_known"], out["selection_inferred"] = sel, True, True
        else:
            out["selected"] = None
    elif not out["selection_known"]:
        out["selected"] = None
    out["extends"] = [e for e in log if e["ev"] == "extend.call"]
    out["deleted"] = [e for e in log if e["ev"] == "delitem.call"]
    calls = [e for e in log if e["ev"] == "replace.call"]
    out["before"] = calls[-1]["before"] if calls else None
    out["n_find_calls"] = len([e for e in log if e["ev"] == "find.call"])
    del events.LOG[n0:]
    return out


def _els(a):
    return [str(a.atom_type_elements[int(t)]) for t in a.atom_types]


def _every_match_loses_an_atom(search, replace, kwargs):
    """does replacing a match remove at least one structure atom? (everything, for an empty replacement or replace_all; otherwise
    the search atoms that do not reappear - same element, same coordinates - in the replacement)"""
    try:
        if len(replace) == 0 or kwargs.get("replace_all", False):
            return len(search) > 0
        shared = shared_pairs({"elements": _els(search), "positions": np.asarray(search.positions, float)},
                              {"elements": _els(replace), "positions": np.asarray(replace.positions, float)})
        return len(set(shared.values())) < len(search)
    except Exception:
        return False


def infer_selection(structure, result, found):
    """which of the found matches were replaced, read off the result alone (atoms are named by their unique charges): a match
    counts as replaced when at least one of its atoms is gone. Only decidable when the found matches are pairwise disjoint and
    every replaced match loses at least one atom; otherwise None (the selection stays unknown, nothing is assumed)."""
    if matches_overlap(found):
        return None
    try:
        ids = [float(c) for c in structure.charges]
        left = set(float(c) for c in result.charges)
    except Exception:
        return None
    if len(set(ids)) != len(ids):
        return None
    sel = [k for k, m in enumerate(found) if any(ids[int(i)] not in left for i in m)]
    return sel


def matches_overlap(found):
    seen = {}
    for k, m in enumerate(found):
        for i in m:
            if i in seen and seen[i] != k:
                return True
            seen[i] = k
    return False
