"""Periodic structures with planted copies of a pattern, decoys and bystanders."""
import numpy as np

from vmon.oracle import geometry as G

CELL_CLASSES = ["ortho", "tri+++", "tri++-", "tri+-+", "tri+--", "tri-++", "tri-+-", "tri--+", "tri---", "tri_minimal", "ortho_minimal",
                "upper_tri", "general_tri", "rotated_ortho", "left_handed", "ortho_big", "tri_big", "tri_unreduced"]
POSES = ["random", "identity", "rot90", "rot180", "axis_parallel", "axis_antiparallel", "axis_near_antiparallel", "axis_antiparallel_exact", "identity_exact", "slightly_tilted", "slightly_tilted_exact",
         "sign_twin_exact", "near_twin_exact"]
# sign_twin / near_twin: orientations RELATED to the previous copy's - the same quaternion with the sign of one or more of its vector
# components changed (the inverse turn, or the same turn about a mirrored axis: symmetry-related sites of a crystal), respectively
# the previous orientation tilted by 0.05 to 2 degrees (a relaxed structure); the first copy of a structure gets a random pose


def make_cell(rng, cls, need):
    """cell of class `cls` whose perpendicular widths all exceed `need`"""
    minimal = cls.endswith("minimal")
    for _ in range(400):
        if minimal:
            a, b, c = need + rng.uniform(0.35, 1.2, 3)
        else:
            a, b, c = need + rng.uniform(3.0, 8.0, 3)
        if cls in ("ortho_big", "tri_big"):
            # a large cell (40-70 A): coordinates are large numbers, the copies sit far from the origin
            a, b, c = need + rng.uniform(35.0, 60.0, 3)
        if cls.startswith("ortho"):
            cell = np.diag([a, b, c])
        elif cls == "left_handed":
            # lattice vectors listed so that they form a left-handed triple (negative determinant): rows of a triclinic cell swapped,
            # or one vector negated
            sg = rng.choice([-1, 1], 3)
            t = rng.uniform(0.12, 0.48, 3)
            low = np.array([[a, 0, 0], [sg[0] * t[0] * a, b, 0], [sg[1] * t[1] * a, sg[2] * t[2] * b, c]])
            r = int(rng.integers(3))
            cell = low[[1, 0, 2]] if r == 0 else (low[[0, 2, 1]] if r == 1 else low * np.array([[1.0], [1.0], [-1.0]]))
        elif cls in ("upper_tri", "general_tri", "rotated_ortho"):
            # cells that are not in LAMMPS' lower-triangular form: tilt carried by the earlier cell vectors (upper
            # triangle), an arbitrarily oriented triclinic cell, an arbitrarily oriented cell with right angles
            sg = rng.choice([-1, 1], 3)
            t = rng.uniform(0.12, 0.48, 3)
            low = np.array([[a, 0, 0], [sg[0] * t[0] * a, b, 0], [sg[1] * t[1] * a, sg[2] * t[2] * b, c]])
            if cls == "upper_tri":
                cell = low.T.copy()
                if rng.integers(3) == 0:
                    cell[0, 2] = cell[1, 2] = 0.0      # only one tilt, in the upper triangle: a = (ax, ay, 0)
            elif cls == "general_tri":
                cell = low.dot(G.random_rotation(rng).T)
            else:
                cell = np.diag([a, b, c]).dot(G.random_rotation(rng).T)
        elif cls == "tri_unreduced":
            # a strongly tilted cell as a simulation or a transformation leaves it (tilt factors beyond half a cell length, not
            # reduced): a long first edge, the other two vectors leaning far along it, so that lattice vectors such as b - a or
            # c - b are much shorter than all three cell edges (which exceed twice the pattern size) - yet every width suffices
            sg = rng.choice([-1, 1], 3)
            base = max(need, 2.5)
            a = base * rng.uniform(2.6, 3.4)
            b, c = base + rng.uniform(0.45, 2.0, 2)
            if rng.integers(3) == 0:
                c = base * rng.uniform(1.5, 3.0)
            t = rng.uniform(0.55, 0.92, 2)
            cell = np.array([[a, 0, 0], [sg[0] * t[0] * a, b, 0], [sg[1] * t[1] * a, sg[2] * rng.uniform(0.05, 0.45) * b, c]])
        else:
            if cls in ("tri_minimal", "tri_big"):
                sg = rng.choice([-1, 1], 3)
            else:
                sg = [1 if ch == "+" else -1 for ch in cls[3:6]]
            t = rng.uniform(0.12, 0.48, 3)
            cell = np.array([[a, 0, 0], [sg[0] * t[0] * a, b, 0], [sg[1] * t[1] * a, sg[2] * t[2] * b, c]])
            if minimal:
                # scale so that the smallest width is just above the limit
                w = G.perp_widths(cell).min()
                cell = cell * ((need + rng.uniform(0.32, 0.8)) / w)
        if G.perp_widths(cell).min() > need + 0.3:
            return cell
    raise RuntimeError("no cell found")


def pose_rotation(rng, pose, pattern_pos, cell):
    """rotation matrix for a pose class. Axis poses align the pattern's search axis (farthest pair) with a cell axis."""
    pos = np.asarray(pattern_pos, float)
    if pose in ("identity", "identity_exact"):
        return np.eye(3)
    if pose.startswith("slightly_tilted"):
        # the orientation in which the pattern is written, tilted by a fraction of a degree to two degrees about a random axis
        return G.rotation_about(rng.normal(size=3), np.radians(10 ** rng.uniform(-0.7, 0.3)))
    if pose == "rot90":
        return G.rotation_about(np.eye(3)[int(rng.integers(3))], np.pi / 2 * int(rng.integers(1, 4)))
    if pose == "rot180":
        return G.rotation_about(np.eye(3)[int(rng.integers(3))], np.pi)
    if pose.startswith("axis") and len(pos) >= 2:
        D = ((pos[:, None, :] - pos[None, :, :]) ** 2).sum(-1)
        i, j = np.unravel_index(np.argmax(D), D.shape)
        ax = pos[j] - pos[i]
        # "antiparallel" refers to what mofun rotates: the search axis onto the axis found in the structure.
        # Placing the copy with R = 180 deg about a perpendicular makes the match axis antiparallel to the search axis.
        if pose == "axis_parallel":
            R = np.eye(3)
        else:
            perp = np.cross(ax, rng.normal(size=3))
            R = G.rotation_about(perp, np.pi)
            if pose == "axis_near_antiparallel":
                R = G.rotation_about(rng.normal(size=3), 1e-6).dot(R)
        # plus a spin about the axis itself so the orientation atom still has to be aligned
        spin = G.rotation_about(R.dot(ax), rng.uniform(0, 2 * np.pi) if rng.integers(3) else 0.0)
        return spin.dot(R)
    return G.random_rotation(rng)


def min_image_dist(cell, p, others):
    if len(others) == 0:
        return np.inf
    return G.equal_mod_lattice(cell, np.asarray(others, float), np.asarray(p, float)[None, :]).min()


def place(rng, cell, rotated, crossings, existing, min_sep, tries=200, on_face=False):
    """translate `rotated` (n,3) so that its atoms straddle exactly `crossings` cell coordinates (None = anywhere).
    -> (positions unwrapped, measured crossings) or None"""
    inv = np.linalg.inv(cell)
    cen = rotated - rotated.mean(0)
    f = cen.dot(inv)
    lo, hi = f.min(0), f.max(0)
    for _ in range(tries):
        c = np.zeros(3)
        if crossings is None:
            c = rng.uniform(0, 1, 3)
        else:
            axes = list(rng.permutation(3))
            cross_axes = axes[:crossings]
            ok = True
            for k in range(3):
                if k in cross_axes:
                    if hi[k] - lo[k] < 1e-3:
                        ok = False
                        break
                    # some atoms below 0, some above, each by a clear margin where possible
                    c[k] = rng.uniform(-hi[k] + 0.15 * (hi[k] - lo[k]), -lo[k] - 0.15 * (hi[k] - lo[k]))
                else:
                    room = 1 - (hi[k] - lo[k])
                    if room < 0.02:
                        ok = False
                        break
                    c[k] = -lo[k] + rng.uniform(0.01, room - 0.01)
            if not ok:
                return None
        pos = cen + c.dot(cell)
        if on_face and crossings is not None:
            # put one atom of the copy exactly on a cell face (fractional coordinate 0 up to rounding)
            k = int(rng.integers(3))
            i = int(rng.integers(len(pos)))
            fi = pos[i].dot(inv)
            pos = pos - ((fi[k] - np.round(fi[k])) * np.eye(3)[k]).dot(cell)
        fl = np.floor(pos.dot(inv) + 1e-12)
        measured = int(sum(len(set(fl[:, k])) > 1 for k in range(3)))
        if crossings is not None and measured != crossings and not on_face:
            continue
        if all(min_image_dist(cell, p, existing) >= min_sep for p in pos):
            return pos, measured
    return None


def build(rng, pattern, cell_cls, atol, n_copies=2, crossings=None, poses=None, decoys=(), n_bystanders=6, n_distractors=3,
          perturb=0.08, shuffle=True, min_sep=1.25, bystander_elements=("Ar", "Kr", "Xe"), whole_number_cell=False):
    """-> dict(atoms: mofun Atoms, cell, planted: [index lists in pattern order], crossings: [int], poses, decoy_groups, info)"""
    from mofun import Atoms
    ppos = np.asarray(pattern["positions"], float)
    pels = list(pattern["elements"])
    need = G.diameter(ppos) + 2 * atol
    cell = make_cell(rng, cell_cls, need)
    int_cell = 0
    if cell_cls in ("ortho", "tri+-+", "tri-+-", "upper_tri") and (rng.integers(4) == 0 or whole_number_cell):
        # a cell typed with whole numbers, handed over as nested list of ints or as an integer array
        c2 = np.round(cell)
        if G.perp_widths(c2).min() > need + 0.3 and abs(np.linalg.det(c2)) > 1:
            cell = c2
            int_cell = 1 + int(rng.integers(2))
    narrow = False
    PREFIX = {"C": ["Cu", "Cl", "Co"], "N": ["Ni", "Na"], "O": ["Os"], "S": ["Si", "Sn"], "H": ["Hf", "He"], "B": ["Br", "Ba"], "F": ["Fe"], "P": ["Pt", "Pd"]}
    ext = [x for e in dict.fromkeys(pels) for x in PREFIX.get(e, [])]
    if bystander_elements == ("Ar", "Kr", "Xe") and ext and rng.integers(3) == 0:
        # the other atoms are of elements whose symbols BEGIN with a pattern element's symbol (C / Cu, N / Ni, S / Si ...)
        bystander_elements = tuple(ext)
    if bystander_elements == ("Ar", "Kr", "Xe") and rng.integers(4) == 0:
        # a structure of one-letter elements only (when the pattern has only such), with its per-type tables held as numpy
        # arrays of narrow fixed-width strings - the state every product of extend/replace is in
        bystander_elements = ("I", "K", "W")
        narrow = True
    positions, elements, tags = [], [], []
    planted, measured, used_poses, decoy_groups = [], [], [], []
    crossings = list(crossings) if crossings is not None else [None] * n_copies
    poses = list(poses) if poses is not None else ["random"] * n_copies

    def add_group(pos, els, tag):
        start = len(positions)
        for p, e in zip(pos, els):
            positions.append(p)
            elements.append(e)
            tags.append(tag)
        return list(range(start, start + len(pos)))

    last_R = [None]
    for k in range(n_copies):
        pose = poses[k % len(poses)]
        fr = str(pattern.get("frame", ""))
        if k == n_copies - 1 and len(ppos) >= 2 and (fr.startswith("direction") or (fr.startswith("axis") and int(np.abs(ppos).sum() * 1e6) % 2)):
            # a pattern written with its axis along a special direction gets a copy turned by exactly half a turn about a
            # perpendicular: the one orientation in which the rotation helper has to invent an axis, from the direction it was given
            pose = "axis_antiparallel_exact"
        placed = None
        for _ in range(30):
            if pose.startswith(("sign_twin", "near_twin")):
                if last_R[0] is None:
                    R = G.random_rotation(rng) if rng.integers(2) else G.rotation_about(np.eye(3)[int(rng.integers(3))], rng.uniform(0.2, 3.0))
                elif pose.startswith("sign_twin"):
                    from scipy.spatial.transform import Rotation as _Rot
                    q = _Rot.from_matrix(last_R[0]).as_quat()
                    flip = rng.integers(0, 2, 3)
                    if not flip.any():
                        flip[int(rng.integers(3))] = 1
                    q[:3] *= np.where(flip, -1.0, 1.0)
                    R = _Rot.from_quat(q).as_matrix()
                else:
                    R = G.rotation_about(rng.normal(size=3), np.radians(10 ** rng.uniform(-1.3, 0.3))).dot(last_R[0])
            else:
                R = pose_rotation(rng, pose, ppos, cell)
            rot = ppos.dot(R.T)
            placed = place(rng, cell, rot, crossings[k % len(crossings)], positions, min_sep, on_face=(pose == "random" and rng.integers(6) == 0))
            if placed is not None:
                break
        if placed is None:
            continue
        pos, m = placed
        delta = rng.normal(size=pos.shape)
        delta = delta / np.maximum(np.linalg.norm(delta, axis=1, keepdims=True), 1e-12) * rng.uniform(0, perturb * atol, (len(pos), 1))
        if pose.endswith("_exact"):
            delta = delta * 0.0     # the exactly (anti)parallel branches of the rotation helpers need an unperturbed copy
        last_R[0] = R
        planted.append(add_group(pos + delta, pels, "copy%d" % k))
        measured.append(m)
        used_poses.append(pose)
    for d in decoys:
        R = G.random_rotation(rng)
        if d == "mirror":
            rot = (ppos * np.array([-1.0, 1.0, 1.0])).dot(R.T)
        else:
            rot = ppos.dot(R.T)
            if len(rot) >= 2:
                j = int(rng.integers(1, len(rot)))
                if d == "near_miss":
                    v = rng.normal(size=3)
                    rot = rot.copy()
                    rot[j] += v / np.linalg.norm(v) * rng.uniform(8, 20) * atol
                elif d == "bent" and len(rot) == 3:
                    # a strongly bent look-alike of an almost linear three-atom pattern: the middle atom is pushed sideways, away from
                    # the line through the two ends, as far as the pair distances allow (they change only to second order, by at most
                    # 0.8 atol), i.e. by several tolerances; planted only where that is at least 4.5 tolerances
                    D = np.linalg.norm(rot[:, None, :] - rot[None, :, :], axis=2)
                    a, b = [int(x) for x in np.unravel_index(np.argmax(D), D.shape)]
                    m = 3 - a - b
                    ax = (rot[b] - rot[a]) / np.linalg.norm(rot[b] - rot[a])
                    off = (rot[m] - rot[a]) - (rot[m] - rot[a]).dot(ax) * ax
                    if np.linalg.norm(off) < 1e-9:
                        off = np.cross(ax, rng.normal(size=3))
                    u = off / np.linalg.norm(off)
                    change = lambda t: max(abs(np.linalg.norm(rot[m] + t * u - rot[e]) - np.linalg.norm(rot[m] - rot[e])) for e in (a, b))
                    lo_, hi_ = 0.0, 6.0
                    want = rng.uniform(0.6, 0.8) * atol
                    for _ in range(60):
                        mid_ = 0.5 * (lo_ + hi_)
                        lo_, hi_ = (mid_, hi_) if change(mid_) < want else (lo_, mid_)
                    if lo_ < 4.5 * atol:
                        continue
                    rot = rot.copy()
                    rot[m] += lo_ * u
                elif d == "tangential":
                    # displaced by 2-2.8 atol perpendicular to its radius from the first atom
                    rad = rot[j] - rot[0]
                    v = np.cross(rad, rng.normal(size=3))
                    rot = rot.copy()
                    rot[j] += v / np.linalg.norm(v) * rng.uniform(2.0, 2.8) * atol
        dels = pels
        if d == "first_element_prefix":
            # an exact copy of the geometry whose first atom is the one-letter element the pattern's first symbol begins with
            # (C where the pattern has Cl): another element, hence no occurrence
            if len(pels[0]) < 2 or not pels[0][:1].isupper():
                continue
            dels = [pels[0][:1]] + list(pels[1:])
        if d == "first_element_other":
            # an exact copy of the geometry whose first atom is of the element of ANOTHER atom of the pattern (C-C-H beside N-C-H)
            others = [e for e in dict.fromkeys(pels) if e != pels[0]]
            if not others:
                continue
            dels = [others[int(rng.integers(len(others)))]] + list(pels[1:])
        placed = place(rng, cell, rot, None, positions, min_sep)
        if placed is not None:
            decoy_groups.append((d, add_group(placed[0], dels, "decoy:" + d)))
    for k in range(n_distractors):
        for _ in range(40):
            p = rng.uniform(0, 1, 3).dot(cell)
            if min_image_dist(cell, p, positions) >= min_sep:
                add_group([p], [pels[int(rng.integers(len(pels)))]], "distractor")
                break
    for k in range(n_bystanders):
        for _ in range(40):
            p = rng.uniform(0, 1, 3).dot(cell)
            if min_image_dist(cell, p, positions) >= min_sep:
                add_group([p], [bystander_elements[int(rng.integers(len(bystander_elements)))]], "bystander")
                break
    if not positions:      # nothing could be placed (minimal cell, unlucky pose): keep the structure non-empty
        add_group([cell.sum(0) / 2], [bystander_elements[0]], "bystander")
    positions = G.wrap(cell, np.array(positions, float).reshape(-1, 3))
    n = len(positions)
    order = rng.permutation(n) if shuffle else np.arange(n)
    newidx = np.empty(n, dtype=int)
    newidx[order] = np.arange(n)
    cell_given = cell if not int_cell else ([[int(v) for v in row] for row in cell] if int_cell == 1 else np.array(cell, dtype=int))
    atoms = Atoms(elements=[elements[i] for i in order], positions=positions[order], cell=cell_given,
                  charges=[1000.0 + i / 64.0 for i in range(n)], groups=[int(x) for x in rng.integers(0, 3, n)])
    if rng.integers(5) == 0:
        # the type tables end in an entry that no atom uses (a file that declares more types than it uses, a structure from which
        # every atom of its last type was deleted)
        atoms.atom_type_elements = [str(e) for e in atoms.atom_type_elements] + ["Rn"]
        atoms.atom_type_labels = [str(e) for e in atoms.atom_type_labels] + ["Rn_unused"]
        atoms.atom_type_masses = [float(m) for m in atoms.atom_type_masses] + [222.0]
    if narrow:
        atoms.atom_type_elements = np.array([str(e) for e in atoms.atom_type_elements])
        atoms.atom_type_labels = np.array([str(e) for e in atoms.atom_type_labels])
        atoms.atom_type_masses = np.array(atoms.atom_type_masses, dtype=float)
    return {"atoms": atoms, "narrow_tables": narrow, "cell": cell, "planted": [[int(newidx[i]) for i in g] for g in planted], "crossings": measured, "poses": used_poses,
            "decoy_groups": [(d, [int(newidx[i]) for i in g]) for d, g in decoy_groups], "tags": [tags[i] for i in order], "cell_cls": cell_cls, "int_cell": int_cell}
