"""Driver: shards a property's workload over worker processes, merges what the monitors
observed, applies the three-valued verdict discipline, writes evidence and replays.

  python -m vmon.runner C07 --tier quick [--seed N] [--jobs N] [--replay file]
  python -m vmon.runner --worker C07 --tier quick --seed N --shard i/n --out file   (internal)
"""
import argparse
import importlib
import json
import os
import shutil
import signal
import subprocess
import sys
import time
import traceback

from vmon import boot
from vmon.stats import Stats

VERIF = boot.VERIF
CASE_TIMEOUT_S = int(os.environ.get("VMON_CASE_TIMEOUT", "600"))
MAX_SAMPLES = 6
MAX_REPLAYS = 5


class Ctx:
    """Handed to run_case: collects what the monitors saw for one case."""

    def __init__(self, stats, case):
        self.stats = stats
        self.case = case
        self.violations = []
        self.fingerprint = None
        self.is_nontrivial = False
        self.sample_obj = None

    def fail(self, reason, witness=None, key=None):
        self.violations.append({"key": key, "reason": reason, "witness": witness})

    def nontrivial(self, fingerprint):
        self.is_nontrivial = True
        self.fingerprint = fingerprint if isinstance(fingerprint, str) else json.dumps(fingerprint, sort_keys=True, default=str)

    def sample(self, obj):
        self.sample_obj = obj


class _CaseTimeout(Exception):
    pass


def _alarm(signum, frame):
    raise _CaseTimeout()


def load_check(prop):
    return importlib.import_module("vmon.checks.%s" % prop.lower())


def jsonable(o):
    import numpy as np
    if isinstance(o, dict):
        return {str(k): jsonable(v) for k, v in o.items()}
    if isinstance(o, (list, tuple, set, frozenset)):
        return [jsonable(v) for v in o]
    if isinstance(o, np.ndarray):
        return jsonable(o.tolist())
    if isinstance(o, (np.integer,)):
        return int(o)
    if isinstance(o, (np.floating,)):
        return float(o)
    if isinstance(o, (np.bool_,)):
        return bool(o)
    if isinstance(o, (str, int, float, bool)) or o is None:
        return o
    return repr(o)


# ------------------------------------------------------------------------------------------
# worker

def run_cases(mod, cases, stats, collect_cover=True):
    """Run cases in this process. Returns dict with results."""
    from vmon import cover, contracts, events
    boot.boot()
    events.install()
    contracts.install(stats)
    contracts.set_running(mod.PROPERTY)
    if collect_cover:
        cover.start()
    out = {"n": 0, "violations": [], "fingerprints": [], "samples": [], "harness_errors": [], "timeouts": 0, "kept_per_key": {}}
    signal.signal(signal.SIGALRM, _alarm)
    if hasattr(mod, "setup"):
        mod.setup(stats)
    import numpy as _np
    import os as _os
    base_state = {"numpy floating-point error handling (np.geterr)": dict(_np.geterr()),
                  "numpy print options": {k: v for k, v in _np.get_printoptions().items() if k in ("threshold", "precision", "edgeitems", "linewidth", "suppress")},
                  "current working directory": _os.getcwd()}
    for case in cases:
        ctx = Ctx(stats, case)
        signal.alarm(CASE_TIMEOUT_S)
        try:
            contracts.begin_case(ctx)
            events.begin_case()
            mod.run_case(case, ctx)
        except _CaseTimeout:
            out["timeouts"] += 1
            out["harness_errors"].append({"case": jsonable(case), "error": "case exceeded %d s" % CASE_TIMEOUT_S})
        except boot.Inconclusive as e:
            out["harness_errors"].append({"case": jsonable(case), "error": "inconclusive: %s" % e})
        except Exception:
            out["harness_errors"].append({"case": jsonable(case), "error": traceback.format_exc()[-3000:]})
        finally:
            signal.alarm(0)
            contracts.end_case()
        # process-wide settings the library has no business changing: a later call in the same process would behave differently
        now_state = {"numpy floating-point error handling (np.geterr)": dict(_np.geterr()),
                     "numpy print options": {k: v for k, v in _np.get_printoptions().items() if k in base_state["numpy print options"]},
                     "current working directory": _os.getcwd()}
        for k_, v_ in now_state.items():
            if v_ != base_state[k_]:
                ctx.fail("the code under observation left %s changed: %s -> %s (what later calls in the same process do now differs from what the API does in a fresh one)" %
                         (k_, base_state[k_], v_), witness={"setting": k_})
                if k_.startswith("numpy floating"):
                    _np.seterr(**base_state[k_])
                elif k_.startswith("numpy print"):
                    _np.set_printoptions(**base_state[k_])
                else:
                    _os.chdir(base_state[k_])
        stats.count("process_wide_settings_compared")
        out["n"] += 1
        # contract failures recorded while this case ran that the case itself did not turn into a verdict
        # keep every distinct mechanism visible: violations are capped per key (known-finding floods must not
        # crowd out a new violation), the totals are always counted
        for v in ctx.violations:
            k = v.get("key") or "<unclassified>"
            kept = out["kept_per_key"].get(k, 0)
            stats.count("violating_observations.%s" % k)
            if kept < (300 if k == "<unclassified>" else 5):
                out["violations"].append({"case": jsonable(case), "hashseed": os.environ.get("PYTHONHASHSEED", ""), **jsonable(v)})
                out["kept_per_key"][k] = kept + 1
        if ctx.is_nontrivial:
            out["fingerprints"].append(ctx.fingerprint)
        if ctx.sample_obj is not None and len(out["samples"]) < MAX_SAMPLES:
            out["samples"].append(jsonable(ctx.sample_obj))
    if collect_cover:
        out["cover"] = cover.stop()
    stats.counts["prints_from_mofun"] = sum(boot.PRINTS.values())
    for k, v in boot.PRINTS.items():
        if "no possible way" in k or "WARNING: Search pattern" in k:
            stats.count("mofun_warning.no_possible_rotation", v)
    for k, v in events.COUNTS.items():
        stats.count("event." + k, v)
    for k, v in contracts.EVALS.items():
        stats.count("contract_eval." + k, v)
    return out


def worker_main(args):
    mod = load_check(args.prop)
    i, n = [int(x) for x in args.shard.split("/")]
    allcases = mod.cases(args.tier, args.seed)
    mine = allcases[i::n]
    stats = Stats()
    out = run_cases(mod, mine, stats)
    out["stats"] = stats.to_json()
    out["total_cases"] = len(allcases)
    with open(args.out, "w") as f:
        json.dump(out, f)
    return 0


# ------------------------------------------------------------------------------------------
# parent

def load_known_findings():
    p = os.path.join(VERIF, "known_findings.json")
    if not os.path.exists(p):
        return []
    with open(p) as f:
        return json.load(f).get("findings", [])


def main(argv=None):
    ap = argparse.ArgumentParser()
    ap.add_argument("prop", nargs="?")
    ap.add_argument("--worker", action="store_true")
    ap.add_argument("--tier", default=os.environ.get("VERIF_TIER", "quick"), choices=["quick", "thorough"])
    ap.add_argument("--seed", type=int, default=int(os.environ.get("VERIF_SEED", "0") or 0))
    ap.add_argument("--jobs", type=int, default=None)
    ap.add_argument("--shard", default="0/1")
    ap.add_argument("--out", default=None)
    ap.add_argument("--replay", default=None)
    ap.add_argument("--no-evidence", action="store_true")
    args = ap.parse_args(argv)
    if not args.prop:
        ap.error("property id required")
    args.prop = args.prop.upper()
    if args.worker:
        return worker_main(args)
    if args.replay:
        return replay_main(args)
    return parent_main(args)


def replay_main(args):
    with open(args.replay) as f:
        rep = json.load(f)
    want = str(rep.get("hashseed") or "0")
    if os.environ.get("PYTHONHASHSEED", "") != want:
        # the string-hash seed of the worker that observed the violation is part of the replay
        os.execve(sys.executable, [sys.executable, "-m", "vmon.runner"] + sys.argv[1:], dict(os.environ, PYTHONUTF8="1", PYTHONHASHSEED=want))
    mod = load_check(rep["property"])
    stats = Stats()
    out = run_cases(mod, [rep["case"]], stats, collect_cover=False)
    print(json.dumps({"violations": out["violations"], "harness_errors": out["harness_errors"]}, indent=1)[:20000])
    known = {(k["property"], k["key"]) for k in load_known_findings() if k.get("status") == "known"}
    bad = [v for v in out["violations"] if (rep["property"], v.get("key")) not in known]
    if bad:
        print("VIOLATION property=%s replay=%s" % (rep["property"], args.replay))
        return 1
    if out["harness_errors"]:
        print("INCONCLUSIVE property=%s harness error during replay" % rep["property"])
        return 2
    print("replay: no violation reproduced")
    return 0


def parent_main(args):
    t0 = time.time()
    prop = args.prop
    try:
        mod = load_check(prop)
    except ModuleNotFoundError:
        print("INCONCLUSIVE property=%s no check module" % prop)
        return 2
    jobs = args.jobs or int(os.environ.get("VMON_JOBS", "0") or 0) or (getattr(mod, "JOBS", {}).get(args.tier) or (4 if args.tier == "quick" else 16))
    jobs = max(1, min(jobs, os.cpu_count() or 1))
    boot.ensure_deps()   # install once in the parent, not racing in the workers
    work = os.path.join(VERIF, ".work", "%s-%d" % (prop, os.getpid()))
    os.makedirs(work, exist_ok=True)
    procs = []
    budget = getattr(mod, "SHARD_TIMEOUT_S", {}).get(args.tier, 1500 if args.tier == "quick" else 6 * 3600)
    env = dict(os.environ)
    for i in range(jobs):
        out = os.path.join(work, "shard%d.json" % i)
        log = open(os.path.join(work, "shard%d.log" % i), "w")
        cmd = [sys.executable, "-m", "vmon.runner", prop, "--worker", "--tier", args.tier, "--seed", str(args.seed),
               "--shard", "%d/%d" % (i, jobs), "--out", out]
        # every worker process runs under another string-hash seed (the order in which sets and dicts of strings iterate is part of
        # the environment, not of the input); the shard -> seed assignment is fixed, replays restore the seed of the failing shard
        # (Python's UTF-8 mode: files opened without an explicit encoding are UTF-8 whatever locale the check is started from)
        env_i = dict(env, PYTHONUTF8="1", PYTHONHASHSEED=str(i % 8) if os.environ.get("VMON_HASHSEEDS", "vary") == "vary" else env.get("PYTHONHASHSEED", "0"))
        procs.append((subprocess.Popen(cmd, cwd=VERIF, env=env_i, stdout=log, stderr=subprocess.STDOUT), out, log))
    inconclusive = []
    results = []
    deadline = t0 + budget
    for p, out, log in procs:
        try:
            rc = p.wait(timeout=max(1, deadline - time.time()))
        except subprocess.TimeoutExpired:
            p.kill()
            p.wait()
            rc = None
        log.close()
        if rc is None:
            inconclusive.append("worker watchdog fired after %d s (harness budget, not a verdict)" % budget)
        elif rc != 0 or not os.path.exists(out):
            tail = ""
            try:
                tail = open(log.name).read()[-1500:]
            except Exception:
                pass
            inconclusive.append("worker exited %s: %s" % (rc, tail))
        else:
            with open(out) as f:
                results.append(json.load(f))

    stats = Stats()
    violations, fingerprints, samples, herrs = [], [], [], []
    cover = {}
    n = 0
    total_cases = 0
    for r in results:
        stats.merge(Stats.from_json(r["stats"]))
        violations += r["violations"]
        fingerprints += r["fingerprints"]
        samples += r["samples"]
        herrs += r["harness_errors"]
        n += r["n"]
        total_cases = r.get("total_cases", total_cases)
        for f, lines in r.get("cover", {}).items():
            cover.setdefault(f, set()).update(lines)
    for h in herrs[:3]:
        inconclusive.append("harness error: %s" % h["error"][-800:])
    if len(herrs) > 3:
        inconclusive.append("... and %d more harness errors" % (len(herrs) - 3))

    # requirements: minimum observations for 'held'
    from vmon import cover as covermod
    cov_report, unmet_lines = covermod.report(mod, cover)
    if not inconclusive:
        try:
            for msg in mod.requirements(stats, args.tier):
                inconclusive.append("observation requirement not met: %s" % msg)
        except Exception:
            inconclusive.append("requirements() failed: %s" % traceback.format_exc()[-600:])
        for msg in unmet_lines:
            inconclusive.append("anchor line never executed: %s" % msg)
        if n == 0:
            inconclusive.append("no case executed")

    # classify violations against the known-findings file (never written here)
    known = {(k["property"], k["key"]): k for k in load_known_findings() if k.get("status") == "known"}
    new, knownhits = [], {}
    for v in violations:
        k = (prop, v.get("key"))
        if v.get("key") and k in known:
            knownhits.setdefault(v["key"], []).append(v)
        else:
            new.append(v)

    replay_paths = []
    if new:
        os.makedirs(os.path.join(VERIF, "replays"), exist_ok=True)
        for j, v in enumerate(new[:MAX_REPLAYS]):
            path = os.path.join(VERIF, "replays", "%s-seed%d-%s-%d.json" % (prop, args.seed, args.tier, j))
            with open(path, "w") as f:
                json.dump({"property": prop, "tier": args.tier, "seed": args.seed, "case": v["case"], "hashseed": v.get("hashseed", "0"),
                           "key": v.get("key"), "reason": v["reason"], "witness": v.get("witness")}, f, indent=1)
            replay_paths.append(path)

    wall = time.time() - t0
    distinct = len(set(fingerprints))
    verdict = "violated" if new else ("inconclusive" if inconclusive else "held")
    if not args.no_evidence:
        ev = {
            "property_id": prop,
            "tier": args.tier,
            "seed": args.seed,
            "level": "exploration",
            "coverage": {
                "evaluations": n,
                "distinct_nontrivial": distinct,
                "rule": getattr(mod, "RULE", ""),
                "samples": samples[:MAX_SAMPLES] or [{"note": "no sample recorded"}],
                "exhaustive": bool(mod.exhaustive(args.tier)) if hasattr(mod, "exhaustive") else False,
                "cases_planned": total_cases,
                "workers": jobs,
                "verdict": verdict,
                "observed": stats.summary(),
                "anchor_coverage": cov_report,
                "contract_engine": "icontract %s" % getattr(boot.ICONTRACT, "__version__", "?") if boot.ICONTRACT else "built-in stand-in (icontract not importable)",
                "known_findings_hit": {k: len(v) for k, v in knownhits.items()},
                "inconclusive_reasons": inconclusive[:10],
                "repo": boot.REPO,
            },
            "assumptions": list(getattr(mod, "ASSUMPTIONS", [])),
            "wall_s": round(wall, 2),
            "violations": len(new),
        }
        if hasattr(mod, "extra_evidence"):
            try:
                ev["coverage"].update(jsonable(mod.extra_evidence(stats, args.tier)))
            except Exception:
                pass
        os.makedirs(os.path.join(VERIF, "evidence"), exist_ok=True)
        with open(os.path.join(VERIF, "evidence", "%s.json" % prop), "w") as f:
            json.dump(jsonable(ev), f, indent=1)
    shutil.rmtree(work, ignore_errors=True)
    try:
        os.rmdir(os.path.join(VERIF, ".work"))
    except OSError:
        pass

    print("%s tier=%s seed=%d cases=%d distinct_nontrivial=%d wall=%.1fs workers=%d" % (prop, args.tier, args.seed, n, distinct, wall, jobs))
    for key, vs in knownhits.items():
        print("KNOWN-FINDING: property=%s %s (%d observations this run; mechanism key %s)" % (prop, known[(prop, key)]["what"], stats.get("violating_observations.%s" % key), key))
    if new:
        for v in new[:MAX_REPLAYS]:
            print("  violation: %s" % v["reason"][:600])
        print("  (%d violating observations in total)" % stats.get("violating_observations.<unclassified>"))
        for pth in replay_paths[:1]:
            print("VIOLATION property=%s replay=%s" % (prop, pth))
        return 1
    if inconclusive:
        for msg in inconclusive[:10]:
            print("INCONCLUSIVE property=%s %s" % (prop, msg))
        return 2
    print("HELD property=%s on %d observed executions" % (prop, n))
    return 0


if __name__ == "__main__":
    sys.exit(main())
