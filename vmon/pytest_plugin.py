"""pytest plugin: run the repository's own test-suite with the event recorder and all contracts attached.
    cd /repo && PYTHONPATH=/verif:/verif/.deps /venv/bin/python -m pytest -p vmon.pytest_plugin -q -p no:cacheprovider
A contract that fires here is either too strict for what correct callers do, or a defect the tests do not assert."""
import collections


def pytest_configure(config):
    from vmon import boot, contracts, events
    from vmon.stats import Stats
    boot.boot()
    events.RECORD = False
    events.install()
    contracts.install(Stats())
    contracts.set_running("*")


def pytest_terminal_summary(terminalreporter):
    from vmon import contracts, events
    tr = terminalreporter
    tr.write_sep("=", "vmon: contracts evaluated during the test-suite")
    for k, v in sorted(contracts.EVALS.items()):
        tr.write_line("  %-32s %d" % (k, v))
    c = collections.Counter((f["owner"], f["clause"]) for f in contracts.ALL_FAILS)
    tr.write_line("vmon: contract failures: %d" % len(contracts.ALL_FAILS))
    for (o, cl), n in sorted(c.items()):
        ex = next(f["reason"] for f in contracts.ALL_FAILS if (f["owner"], f["clause"]) == (o, cl))
        tr.write_line("  %s/%s x%d  e.g. %s" % (o, cl, n, ex[:200]))
