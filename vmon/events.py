"""Event recorder at the boundary of the real mofun functions (no source edits).

Every alias of a function is re-bound (mofun.mofun.f, mofun.f, mofun.cli.mofun_cli.f).
Events of the current case are appended to LOG (when RECORD is on); COUNTS always counts.
RNG call sites inside mofun (random.choice / random.sample in mofun.mofun and mofun.helpers,
np.random.random in mofun.helpers) go through proxies that record and can inject a schedule.
"""
import copy
import functools
import inspect
import random as _random

import numpy as np


def _elements_of(a):
    tab = [str(e) for e in a.atom_type_elements]
    return [tab[int(t)] for t in a.atom_types]

LOG = []
COUNTS = {}
RECORD = True
_installed = False
ORIG = {}

# RNG schedule: 'real' | 'first' | 'last' | 'rr' for choice;  'real' | 'first' | 'last' for sample
SCHEDULE = {"choice": "real", "sample": "real", "nprandom": "real"}
_rr = [0]


def count(name, n=1):
    COUNTS[name] = COUNTS.get(name, 0) + n


def emit(kind, **data):
    count(kind)
    if RECORD:
        data["ev"] = kind
        LOG.append(data)


def begin_case():
    del LOG[:]
    SCHEDULE.update(choice="real", sample="real", nprandom="real")
    _rr[0] = 0


def of(kind):
    return [e for e in LOG if e["ev"] == kind]


def seed_all(seed):
    _random.seed(int(seed))
    np.random.seed(int(seed) % (2 ** 32))


class _RandomProxy:
    """stands in for the `random` module inside mofun modules"""

    def __getattr__(self, name):
        return getattr(_random, name)

    def choice(self, seq):
        mode = SCHEDULE["choice"]
        seq = list(seq)
        if mode == "first":
            i = 0
        elif mode == "last":
            i = len(seq) - 1
        elif mode == "rr":
            i = _rr[0] % len(seq)
            _rr[0] += 1
        else:
            i = _random.randrange(len(seq))
        emit("choice", n=len(seq), picked=i, mode=mode)
        return seq[i]

    def sample(self, population, k, **kw):
        mode = SCHEDULE["sample"]
        population = list(population)
        if mode == "first":
            idx = list(range(k))
        elif mode == "last":
            idx = list(range(len(population) - k, len(population)))
        elif mode == "reversed":          # a draw in descending order: selection order differs from found order
            idx = list(range(len(population) - 1, len(population) - 1 - k, -1))
        elif isinstance(mode, tuple) and mode[0] == "script" and len(mode[1]) == k and all(0 <= int(i) < len(population) for i in mode[1]) and len(set(mode[1])) == k:
            idx = [int(i) for i in mode[1]]     # a draw the check scripted (still one of the draws the generator can make)
            mode = "script"
        else:
            idx = _random.sample(range(len(population)), k)
            mode = "real" if isinstance(mode, tuple) else mode
        if k > len(population) or k < 0:
            return _random.sample(population, k)   # let the real error happen
        emit("sample", n=len(population), k=k, picked=list(idx), mode=mode)
        return [population[i] for i in idx]


class _NpRandomProxy:
    def __getattr__(self, name):
        return getattr(np.random, name)

    def random(self, *a, **k):
        r = np.random.random(*a, **k)
        if SCHEDULE["nprandom"] == "near_parallel":
            # a reachable draw that is nearly parallel to the vector it will be crossed with
            import sys
            v1 = sys._getframe(1).f_locals.get("v1")
            if v1 is not None and (np.all(np.asarray(v1) > 1e-3) or np.all(np.asarray(v1) < -1e-3)):
                base = np.abs(np.asarray(v1, float))
                base = base / base.max() * 0.9
                r = np.clip(base + 1e-6 * (r - 0.5), 0.0, 0.999999)
                count("nprandom.near_parallel_injected")
        emit("nprandom", value=[float(x) for x in np.ravel(r)])
        return r


class _NpProxy:
    random = _NpRandomProxy()

    def __getattr__(self, name):
        return getattr(np, name)


def rng_fingerprint():
    """state of both random generators, to tell whether anything was drawn between two events (whatever call drew it)"""
    try:
        st = np.random.get_state()
        return hash((_random.getstate(), st[1].tobytes(), st[2]))
    except Exception:
        return None


def _pair_merge_condition(receiver, other):
    try:
        return len(receiver.pair_coeffs) == 0 and len(other.pair_coeffs) > 0 and len(receiver.atom_type_elements) > 0
    except Exception:
        return False


def _rebind(name, new):
    import mofun, mofun.mofun, mofun.cli.mofun_cli as cli
    for mod in (mofun.mofun, mofun, cli):
        if hasattr(mod, name):
            setattr(mod, name, new)


def snapshot_atoms(a):
    return copy.deepcopy(a)


def install():
    global _installed
    if _installed:
        return
    import mofun, mofun.mofun as mm, mofun.helpers as mh, mofun.atoms as ma
    from vmon import contracts

    mm.random = _RandomProxy()
    mh.random = _RandomProxy()
    mh.np = _NpProxy()

    real_find = mm.find_pattern_in_structure
    ORIG["find"] = real_find
    checked_find = contracts.wrap_find(real_find)

    find_sig = inspect.signature(real_find)

    @functools.wraps(real_find)
    def find_wrapper(*args, **kwargs):
        # the arguments reach the real function exactly as the caller gave them (by position or by name): they are bound to the
        # real function's own signature, never to a copy of the documented one kept here
        ba = find_sig.bind(*args, **kwargs)
        ba.apply_defaults()
        b = ba.arguments
        structure, pattern, atol = b["structure"], b["pattern"], b["atol"]
        hints = (b["axisp1_idx"], b["axisp2_idx"], b["opoint_idx"])
        return_positions_and_quats = b["return_positions_and_quats"]
        emit("find.call", n_structure=len(structure), n_pattern=len(pattern), atol=atol, hints=hints)
        b["return_positions_and_quats"] = True
        try:
            res = checked_find(*ba.args, **ba.kwargs)
        except Exception as e:
            emit("find.raise", exc=type(e).__name__, msg=str(e)[:200])
            raise
        idx, pos, quats = res
        emit("find.ret", matches=[tuple(int(i) for i in m) for m in idx], positions=np.array(pos, dtype=float, copy=True),
             quats=quats, atol=atol, hints=hints, rng=rng_fingerprint(),
             pattern_positions=np.array(pattern.positions, dtype=float, copy=True), pattern_elements=_elements_of(pattern))
        if return_positions_and_quats:
            return res
        return idx

    _rebind("find_pattern_in_structure", find_wrapper)

    real_replace = mm.replace_pattern_in_structure
    ORIG["replace"] = real_replace

    @functools.wraps(real_replace)
    def replace_wrapper(structure, search_pattern, replace_pattern, *args, **kwargs):
        snap = None
        if RECORD:
            snap = (snapshot_atoms(structure), snapshot_atoms(search_pattern), snapshot_atoms(replace_pattern))
        emit("replace.call", kwargs=dict(kwargs), nargs=len(args), before=snap)
        # the mechanism behind known finding F8, stated on the inputs of the public call (not on which internal routine merges
        # the type tables): typed atoms without a pair table receive a pattern that has one
        f8 = _pair_merge_condition(structure, replace_pattern) or getattr(structure, "_vmon_pair_merge", False)
        ctx0 = contracts.PAIR_MERGE_CONTEXT[0]
        contracts.PAIR_MERGE_CONTEXT[0] = ctx0 or f8
        try:
            res = real_replace(structure, search_pattern, replace_pattern, *args, **kwargs)
        except Exception as e:
            emit("replace.raise", exc=type(e).__name__, msg=str(e)[:200], exc_obj=e, rng=rng_fingerprint())
            raise
        finally:
            contracts.PAIR_MERGE_CONTEXT[0] = ctx0
        emit("replace.ret", result=res, rng=rng_fingerprint())
        out = res[0] if isinstance(res, tuple) else res
        if f8:
            try:
                out._vmon_pair_merge = True
            except Exception:
                pass
        contracts.check_atoms_consistent(out, "replace_pattern_in_structure(result)")
        return res

    _rebind("replace_pattern_in_structure", replace_wrapper)

    A = ma.Atoms

    real_extend = A.extend
    ORIG["extend"] = real_extend

    extend_sig = inspect.signature(real_extend)

    @functools.wraps(real_extend)
    def extend_wrapper(*args, **kwargs):
        ba = extend_sig.bind(*args, **kwargs)
        ba.apply_defaults()
        b = ba.arguments
        self, other, offsets, structure_index_map = b["self"], b["other"], b["offsets"], b["structure_index_map"]
        emit("extend.call", n_self=len(self), n_other=len(other), offsets=None if offsets is None else tuple(int(x) for x in offsets),
             index_map={int(k): int(v) for k, v in dict(structure_index_map).items()},
             other_positions=np.array(other.positions, dtype=float, copy=True) if RECORD else None,
             other_elements=_elements_of(other) if RECORD else None)
        if _pair_merge_condition(self, other):
            self._vmon_pair_merge = True
        r = real_extend(*args, **kwargs)
        emit("extend.ret", n_self=len(self))
        contracts.check_atoms_consistent(self, "Atoms.extend")
        return r

    A.extend = extend_wrapper

    real_extend_types = A.extend_types
    ORIG["extend_types"] = real_extend_types

    @functools.wraps(real_extend_types)
    def extend_types_wrapper(self, other):
        # remember the one mechanism behind known finding F8: typed atoms without a pair table
        # receive a pair table that only covers the other structure's types
        if _pair_merge_condition(self, other):
            self._vmon_pair_merge = True
        r = real_extend_types(self, other)
        emit("extend_types", offsets=tuple(int(x) for x in r))
        return r

    A.extend_types = extend_types_wrapper

    real_del = A.__delitem__
    ORIG["delitem"] = real_del
    checked_del = contracts.wrap_delitem(real_del)

    @functools.wraps(real_del)
    def del_wrapper(self, indices):
        emit("delitem.call", n_self=len(self), indices=[int(i) for i in np.ravel(np.array(indices, dtype=int))] if RECORD else None)
        r = checked_del(self, indices)
        emit("delitem.ret", n_self=len(self))
        contracts.check_atoms_consistent(self, "Atoms.__delitem__")
        return r

    A.__delitem__ = del_wrapper

    real_repl = A.replicate
    ORIG["replicate"] = real_repl

    @functools.wraps(real_repl)
    def replicate_wrapper(self, repldims=(1, 1, 1)):
        emit("replicate.call", n_self=len(self), repldims=tuple(int(x) for x in repldims))
        r = real_repl(self, repldims)
        emit("replicate.ret", n_out=len(r))
        contracts.check_atoms_consistent(r, "Atoms.replicate(result)")
        return r

    A.replicate = replicate_wrapper

    real_getitem = A.__getitem__
    ORIG["getitem"] = real_getitem

    @functools.wraps(real_getitem)
    def getitem_wrapper(self, i):
        # a subset shares its parent's type tables: it inherits the known-finding mechanism flag (see extend_types_wrapper)
        flagged = getattr(self, "_vmon_pair_merge", False)
        contracts.PAIR_MERGE_CONTEXT[0] = contracts.PAIR_MERGE_CONTEXT[0] or flagged
        try:
            r = real_getitem(self, i)
        finally:
            if flagged:
                contracts.PAIR_MERGE_CONTEXT[0] = False
        if flagged:
            r._vmon_pair_merge = True
        emit("getitem", n_self=len(self), n_out=len(r))
        contracts.check_atoms_consistent(r, "Atoms.__getitem__(result)")
        return r

    A.__getitem__ = getitem_wrapper

    real_init = A.__init__
    ORIG["init"] = real_init

    @functools.wraps(real_init)
    def init_wrapper(self, *a, **k):
        real_init(self, *a, **k)
        count("init")
        contracts.check_atoms_consistent(self, "Atoms.__init__")

    A.__init__ = init_wrapper

    real_guess = mh.guess_elements_from_masses
    ORIG["guess"] = real_guess
    checked_guess = contracts.wrap_guess(real_guess)
    mh.guess_elements_from_masses = checked_guess
    ma.guess_elements_from_masses = checked_guess

    _installed = True
