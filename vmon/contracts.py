"""Contracts attached to the real functions (icontract when importable, otherwise a stand-in
that evaluates the same condition functions at the same points).

Conditions *record and return True*: a failed clause is handed to the running case when the
clause belongs to the property being decided (owner == running property); in runs for other
properties it is only counted (`foreign.<owner>`), so each check's verdict is about its own
property.  EVALS counts evaluations per contract: a contract that was never evaluated where
calls were expected makes the run inconclusive (a stale alias would look like that).
"""
import functools

import numpy as np

from vmon import boot
from vmon.oracle import geometry as G
from vmon.oracle.invariant import inconsistencies

EVALS = {}
ALL_FAILS = []
F8_KEY = "pair-table-shorter-than-type-table-on-merge"
# set by a check while it re-reads a file written from an object that carries the F8 mechanism flag: the object constructed
# by the reader is new and cannot carry the flag itself
PAIR_MERGE_CONTEXT = [False]
_ctx = [None]
_stats = [None]
_running = [None]


def install(stats):
    _stats[0] = stats


def begin_case(ctx):
    _ctx[0] = ctx


def end_case():
    _ctx[0] = None


def set_running(prop):
    _running[0] = prop


def _ev(name, n=1):
    EVALS[name] = EVALS.get(name, 0) + n


def report(owner, clause, reason, witness=None, key=None):
    ctx = _ctx[0]
    st = _stats[0]
    if _running[0] == "*":          # the repository's own tests under monitors: collect everything
        ALL_FAILS.append({"owner": owner, "clause": clause, "reason": reason})
        return
    if ctx is not None and _running[0] == owner:
        ctx.fail("[contract %s/%s] %s" % (owner, clause, reason), witness=witness, key=key)
    elif st is not None:
        st.count("foreign.%s.%s" % (owner, clause))


def _ensure(cond, func):
    """attach `cond` as a postcondition of `func`"""
    ic = boot.ICONTRACT
    if ic is not None:
        class PostBroken(Exception):
            pass
        return ic.ensure(cond, error=PostBroken)(func)
    import inspect
    sig = inspect.signature(func)
    want = [p for p in inspect.signature(cond).parameters]

    @functools.wraps(func)
    def wrapper(*a, **k):
        result = func(*a, **k)
        ba = sig.bind(*a, **k)
        ba.apply_defaults()
        args = dict(ba.arguments)
        args["result"] = result
        cond(**{w: args[w] for w in want})
        return result
    return wrapper


# ------------------------------------------------------------------------------------------
# C01: every reported match is a genuine rigid-motion image (witness check)

def c01_domain(structure, pattern, atol, need_inside=True):
    """need_inside=False: what C01 states about a reported match (elements, distinctness, lattice images, rigid image) does not
    depend on whether the atoms are stored wrapped into the cell; completeness (C02, C03) is only judged for wrapped ones"""
    if structure.cell is None or len(structure) == 0 or len(pattern) == 0:
        return False
    cell = np.asarray(structure.cell, float)
    if cell.shape != (3, 3) or abs(np.linalg.det(cell)) < 1e-9:
        return False
    if need_inside and not G.inside_cell(cell, structure.positions, eps=1e-9):
        return False
    return bool(np.all(G.perp_widths(cell) > G.diameter(pattern.positions) + 2 * atol))


def c01_clauses(structure, pattern, atol, result):
    """-> list of (clause, message, witness)"""
    bad = []
    idx, pos, quats = result
    n = len(structure)
    from vmon.oracle.util import elements_of
    els = elements_of(structure)
    pels = elements_of(pattern)
    ppos = np.asarray(pattern.positions, float)
    cell = np.asarray(structure.cell, float)
    if len(idx) != len(pos) or len(idx) != len(quats):
        bad.append(("shape", "lists of different length: %d matches, %d position sets, %d rotations" % (len(idx), len(pos), len(quats)), None))
        return bad
    for k, m in enumerate(idx):
        m = [int(i) for i in m]
        w = {"match": m, "k": k}
        if len(m) != len(pattern):
            bad.append(("tuple_length", "match %s has %d entries for a %d-atom pattern" % (m, len(m), len(pattern)), w))
            continue
        if any(i < 0 or i >= n for i in m):
            bad.append(("index_range", "match %s has an index outside 0..%d" % (m, n - 1), w))
            continue
        if len(set(m)) != len(m):
            bad.append(("distinct", "match %s repeats an atom" % (m,), w))
        if [els[i] for i in m] != pels:
            bad.append(("elements", "match %s has elements %s, pattern %s" % (m, [els[i] for i in m], pels), w))
        x = np.asarray(pos[k], float)
        err = G.lattice_offset_error(cell, x - np.asarray(structure.positions, float)[m])
        if not err <= 1e-6:
            bad.append(("positions_are_images", "returned positions of match %s are not the stored positions plus lattice vectors (fractional error %.3g)" % (m, err), w))
        bound = atol * (1 + 2e-5) + 1e-5 * float(np.abs(x).max()) + 1e-9
        if len(m) >= 1:
            q = quats[k]
            try:
                rot = q.apply(ppos)
                finite = bool(np.all(np.isfinite(rot)))
            except Exception as e:
                rot, finite = None, False
            if not finite:
                bad.append(("rotation_finite", "returned rotation of match %s is not finite/usable" % (m,), w))
            else:
                res = G.linf_translation_residual(rot, x)
                if not res <= bound:
                    bad.append(("rotation_witness", "returned rotation leaves residual %.4g > tolerance bound %.4g for match %s (atol %.3g)" % (res, bound, m, atol),
                                dict(w, residual=res, bound=bound)))
        if len(m) >= 2:
            _, _, rms, _, _ = G.kabsch(ppos, x)
            if not rms <= np.sqrt(3) * bound * 1.01:
                bad.append(("no_rigid_motion", "best proper rigid fit of the pattern onto match %s has RMS %.4g > sqrt(3)*tolerance %.4g: not a rotated copy (mirror image / wrong atoms)" % (m, rms, np.sqrt(3) * bound),
                            dict(w, rms=rms)))
    return bad


def wrap_find(real_find):
    def c01_post(structure, pattern, atol, result):
        _ev("C01.find_post")
        try:
            if not c01_domain(structure, pattern, atol, need_inside=False):
                _ev("C01.out_of_domain")
                return True
            _ev("C01.in_domain")
            if not G.inside_cell(np.asarray(structure.cell, float), structure.positions, eps=1e-9):
                _ev("C01.in_domain_with_atoms_stored_outside_the_cell")
            _ev("C01.matches_checked", len(result[0]))
            for clause, msg, w in c01_clauses(structure, pattern, atol, result):
                report("C01", clause, msg, witness=w)
        except Exception as e:
            report("C01", "uninspectable_result", "%s: %s" % (type(e).__name__, e))
        return True
    return _ensure(c01_post, real_find)


# ------------------------------------------------------------------------------------------
# C10 fast path on every deletion, anywhere

def wrap_delitem(real_del):
    @functools.wraps(real_del)
    def checked(self, indices):
        pre = None
        try:
            ind = np.asarray(indices)
            if ind.dtype != bool and ind.size > 0 and np.issubdtype(ind.dtype, np.integer) and ind.min() >= 0 and ind.max() < len(self):
                ind = sorted(set(int(i) for i in ind.ravel()))
                pre = (len(self), ind, np.array(self.positions, copy=True), np.array(self.atom_types, copy=True),
                       np.array(self.charges, copy=True), np.array(self.groups, copy=True))
        except Exception:
            pre = None
        r = real_del(self, indices)
        _ev("C10.delitem_post")
        if pre is None:
            _ev("C10.delitem_out_of_domain")
            return r
        n0, ind, p0, t0, c0, g0 = pre
        keep = [i for i in range(n0) if i not in set(ind)]
        if len(self) != n0 - len(ind):
            report("C10", "count", "deleting %d distinct atoms from %d left %d" % (len(ind), n0, len(self)), witness={"indices": ind})
        elif not (np.array_equal(self.positions, p0[keep]) and np.array_equal(self.atom_types, t0[keep])
                  and np.array_equal(self.charges, c0[keep]) and np.array_equal(self.groups, g0[keep])):
            report("C10", "survivors", "surviving per-atom rows are not the old rows in order after deleting %s" % (ind,), witness={"indices": ind})
        return r
    return checked


# ------------------------------------------------------------------------------------------
# C14: nearest element within tolerance

def wrap_guess(real_guess):
    def c14_post(masses, max_delta, result):
        _ev("C14.guess_post")
        from mofun.atomic_masses import ATOMIC_MASSES
        tab = list(ATOMIC_MASSES.items())
        for m, e in zip(masses, result):
            m = float(m)
            if e not in ATOMIC_MASSES:
                report("C14", "not_an_element", "mass %r -> %r, not in the table" % (m, e), witness={"mass": m, "got": e})
                continue
            d = abs(m - ATOMIC_MASSES[e])
            best = min(abs(m - mm) for _, mm in tab)
            if not d < max_delta:
                report("C14", "outside_tolerance", "mass %r -> %s (|diff| %.6g) not within tolerance %g" % (m, e, d, max_delta), witness={"mass": m, "got": e, "tol": max_delta})
            elif d > best + 1e-12:
                near = min(tab, key=lambda kv: abs(m - kv[1]))[0]
                report("C14", "not_nearest", "mass %r -> %s (|diff| %.6g) but %s is nearer (%.6g)" % (m, e, d, near, best), witness={"mass": m, "got": e, "nearest": near, "tol": max_delta})
        return True
    post = _ensure(c14_post, real_guess)

    import inspect
    guess_sig = inspect.signature(real_guess)

    @functools.wraps(real_guess)
    def checked(*args, **kw):
        # arguments reach the real function as given; they are bound to its own signature only to know the tolerance in force
        from mofun.atomic_masses import ATOMIC_MASSES
        try:
            return post(*args, **kw)
        except Exception as e:
            if type(e).__name__ == "PostBroken":
                raise
            _ev("C14.guess_raise")
            try:
                ba = guess_sig.bind(*args, **kw)
                ba.apply_defaults()
                masses, tol = ba.arguments["masses"], ba.arguments["max_delta"]
            except Exception:
                raise e
            try:
                allin = all(min(abs(float(m) - mm) for mm in ATOMIC_MASSES.values()) < tol for m in masses)
            except Exception:
                allin = False
            if allin and len(masses) > 0:
                report("C14", "raised_although_all_within_tolerance", "raised %s although every mass in %s is within %g of an element" % (type(e).__name__, list(map(float, masses)), tol),
                       witness={"masses": [float(m) for m in masses], "tol": tol})
            raise
    return checked


# ------------------------------------------------------------------------------------------
# C09 invariant at the exit of constructors and mutators

def check_atoms_consistent(atoms, where):
    _ev("C09.invariant")
    if _running[0] != "C09" and _stats[0] is None:
        return
    bad = inconsistencies(atoms)
    for clause, msg in bad:
        key = None
        if clause == "pair_table_covers_types" and (getattr(atoms, "_vmon_pair_merge", False) or PAIR_MERGE_CONTEXT[0]) and len(bad) == 1:
            key = F8_KEY
        report("C09", clause, "%s after %s" % (msg, where), witness={"where": where, "clause": clause}, key=key)
