"""C09 - Atoms objects stay consistent and type ids keep their meaning."""
import io
import itertools

import numpy as np

from vmon import contracts, events
from vmon.gen import atomsgen, patterns, replcase
from vmon.oracle import atomsmodel as AM
from vmon.oracle import lmpread
from vmon.oracle.invariant import inconsistencies
from vmon.oracle.util import clone, deep_diff

PROPERTY = "C09"
RULE = ("Operation histories on the real Atoms class, each step judged three ways: (1) the structural invariant at the "
        "exit of the constructor/mutator (hooked) and on the step's result; (2) the resolved state (type ids -> label, "
        "element, mass, coefficient text; atoms named by unique ids) against the harness's reference model applied to "
        "the state before the step; (3) if at least one atom is left: save_lmpdat -> independent reader -> declared "
        "counts = contents, ids in range, resolved file = resolved state; and load_lmpdat reads the same state back. "
        "Bounded-exhaustive: from 2-4-atom structures (with/without tables, with a table but no terms, 'as loaded from "
        "CIF') every operation of the alphabet {delete each subset, pop (default / negative / zero position), extend by each fragment with each identity map of "
        "size <= 2, replicate (1,1,2)/(2,1,1), copy, subset, single-site replace} to depth 2 (quick) / 3 (thorough), "
        "which includes 'empty a kind, then add to it' and 'delete all atoms, then extend'. Random: sequences of up to 8 "
        "operations on 5-12-atom structures. Non-trivial: the history contains at least one deletion or extension "
        "that changed a term list; distinct by (seed, operation sequence).")
ASSUMPTIONS = ["initial structures and fragments are consistent and compatible per kind; the one incompatible class that is generated on purpose ('cif_like' + fragment with pair table) reproduces known finding F8",
               "after a replication (which duplicates ids) fresh unique ids are assigned to the real object's charges before the history continues"]
ANCHOR_FUNCS = [("mofun/atoms.py", "Atoms.assert_arrays_are_consistent_sizes"), ("mofun/atoms.py", "Atoms.extend_types"), ("mofun/atoms.py", "Atoms.extend"),
                ("mofun/atoms.py", "Atoms.__delitem__"), ("mofun/atoms.py", "Atoms.__getitem__"), ("mofun/atoms.py", "Atoms.replicate")]
REQUIRED_LINES = [("mofun/atoms.py", "return len(self.bond_type_coeffs)\n"), ("mofun/atoms.py", "atom_type_labels=self.atom_type_labels,")]
JOBS = {"quick": 6, "thorough": 16}
F8 = contracts.F8_KEY


def cases(tier, seed):
    rng = np.random.default_rng([9, seed])
    out = []
    classes = ["tabled", "untabled", "table_no_terms", "cif_like", "mixed", "extras"]
    depth = 2 if tier == "quick" else 3
    reps = 1 if tier == "quick" else 2
    for rep in range(reps):
        for n in (2, 3, 4):
            for cls in classes:
                s = int(rng.integers(1 << 30))
                # the first operation is part of the case descriptor so that the enumeration shards over workers
                out.append({"kind": "exhaustive", "n": n, "cls": cls, "s": s, "depth": depth, "first": None})
    expanded = []
    for c in out:
        nops = len(alphabet_size_probe(c))
        for i in range(nops):
            expanded.append(dict(c, first=i))
    nrand = 150 if tier == "quick" else 5000
    for j in range(nrand):
        expanded.append({"kind": "random", "n": int(rng.integers(5, 13)), "cls": classes[j % len(classes)], "s": int(rng.integers(1 << 30)), "length": int(rng.integers(3, 9))})
    return expanded


def alphabet_size_probe(c):
    """number of operations available on the initial structure (depends only on n and the fixed fragments)"""
    return list(range(len(op_list(c["n"], None, np.random.default_rng(0)))))


def initial(rng, n, cls):
    """initial structure of a class; always with a cell (replication and replacement need one)"""
    # one structure in eight lives in a box of about a thousand A (coordinates that need more room than usual when printed)
    common = dict(tag="S", cell=["ortho", "tri", "tiny_tilt"][int(rng.integers(3))], scale=7.0 if rng.integers(8) else 950.0)
    if cls == "tabled":
        a = atomsgen.gen_atoms(rng, n, kinds=_kinds(rng, n), tables={k: True for k in atomsgen.KNAMES}, pair=True, extras={}, **common)
    elif cls == "untabled":
        a = atomsgen.gen_atoms(rng, n, kinds=_kinds(rng, n), tables={k: False for k in atomsgen.KNAMES}, pair=False, extras={}, **common)
    elif cls == "table_no_terms":
        a = atomsgen.gen_atoms(rng, n, kinds={k: 0 for k in atomsgen.KNAMES}, tables={k: True for k in atomsgen.KNAMES}, pair=True, extras={}, **common)
    elif cls == "cif_like":
        a = atomsgen.gen_atoms(rng, n, kinds={"bond": 0, "angle": 0, "dihedral": 0, "improper": 0}, tables={k: False for k in atomsgen.KNAMES}, pair=False, extras={}, **common)
    elif cls == "mixed":
        a = atomsgen.gen_atoms(rng, n, kinds=_kinds(rng, n), tables={k: bool(rng.integers(2)) for k in atomsgen.KNAMES}, pair=bool(rng.integers(2)), extras={}, **common)
    else:
        a = atomsgen.gen_atoms(rng, n, kinds=_kinds(rng, n), tables={k: True for k in atomsgen.KNAMES}, pair=True,
                               extras={"atom": ["_x_atom_a"], "angle": ["_x_angle_a"], "dihedral": ["_x_dih_a"]}, **common)
    return a


def _kinds(rng, n):
    return {"bond": int(rng.integers(1, 3)) if n >= 2 else 0, "angle": int(rng.integers(0, 3)) if n >= 3 else 0,
            "dihedral": int(rng.integers(0, 2)) if n >= 4 else 0, "improper": int(rng.integers(0, 2)) if n >= 4 else 0}


def fragment(rng, a, which, base, cif_like=False, with_extras=False):
    """a 2- or 4-atom fragment compatible with the current state of `a`"""
    tables, kinds = {}, {}
    for kd in atomsgen.KNAMES:
        has_terms = len(getattr(a, "%s_types" % kd)) > 0
        has_table = len(getattr(a, "%s_type_coeffs" % kd)) > 0
        m = int(rng.integers(0, 3)) if atomsgen.WIDTH[kd] <= (2 if which == 0 else 4) else 0
        kinds[kd] = m
        if has_terms:
            tables[kd] = has_table
        else:
            tables[kd] = True if has_table else (which == 0)
    atoms_typed = len(a.atom_type_elements) > 0
    pair = len(a.pair_coeffs) > 0 if atoms_typed else (which == 0)
    if cif_like and which == 0:
        pair = True          # the documented workflow behind known finding F8: typed atoms without pair table + parameterised fragment
    extras = {}
    if with_extras:     # new labels, and one label the structure already has: columns must be merged by label
        extras = {"atom": ["_x_atom_a", "_x_atom_f%d" % which], "bond": ["_x_bond_f"], "angle": ["_x_angle_a"] if which else [], "dihedral": ["_x_dih_f"] if which else []}
    return atomsgen.gen_atoms(rng, 2 if which == 0 else 4, tag="F%d" % which, id_base=base, cell=None, kinds=kinds, tables=tables, pair=pair, extras=extras, span=1.0)


def op_list(n, a, rng):
    """the operation alphabet on a structure with n atoms (descriptors only)"""
    ops = []
    if n <= 4:
        subsets = list(atomsgen.all_subsets(n))
    else:
        subsets = [(i,) for i in range(min(n, 3))] + [tuple(range(n))] + [tuple(sorted(int(x) for x in rng.choice(n, size=int(rng.integers(2, n)), replace=False))) for _ in range(3)]
    for s in subsets:
        ops.append(("del", list(s)))
    for which in (0, 1):
        nf = 2 if which == 0 else 4
        for m in atomsgen.partial_injections(nf, n, max_size=(2 if which == 0 else 1) if n <= 4 else 1)[: (40 if n <= 4 else 6)]:
            ops.append(("ext", which, {str(k): v for k, v in m.items()}))
    if 1 <= n <= 4:
        ops.append(("rep", [1, 1, 2]))
        ops.append(("rep", [2, 1, 1]))
    ops.append(("copy",))
    if n >= 1:
        ops.append(("pop", None))
        if n >= 2:
            ops.append(("pop", -2))
            ops.append(("pop", 0))
    if n >= 1:
        ops.append(("sub", [0]))
        if n >= 2:
            ops.append(("sub", [n - 1, 0]))
    if n >= 1:
        ops.append(("rpl", 0))
    return ops


class Unjudged(Exception):
    pass


def apply_op(a, op, rng, step, ctx, st, w):
    """apply one operation to the real object, judge it, and return the new real object (with unique ids)"""
    m0 = AM.resolve(a)
    ids = m0.ids()
    kind = op[0]
    pre = clone(a)          # independent snapshot (not Atoms.copy): no operation may change the object it was applied from
    flagged = getattr(a, "_vmon_pair_merge", False)
    what = "step %d %s" % (step, _fmt(op))
    try:
        if kind == "del":
            b = a.copy() if step % 2 else clone(a)       # odd steps work on a real Atoms.copy(): operations on a copy must not reach the original
            del b[list(op[1])]
            pred = AM.delete(m0, [ids[i] for i in op[1]])
        elif kind == "ext":
            f = fragment(rng, a, op[1], 2000.0 + 100.0 * step, cif_like=w['case']['cls'] == 'cif_like', with_extras=w['case']['cls'] == 'extras' and step % 2 == 1)
            mf = AM.resolve(f)
            fid = mf.ids()
            idx_map = {int(k): v for k, v in op[2].items()}
            b = a.copy() if step % 2 else clone(a)
            fpre = clone(f)
            b.extend(f, structure_index_map=dict(idx_map))
            if deep_diff(f, fpre):
                ctx.fail("%s: extend modified the structure it was given to add: %s" % (what, deep_diff(f, fpre)[:3]), witness=w)
            pred = AM.extend(m0, mf, {fid[k]: ids[v] for k, v in idx_map.items()}, retag=lambda tok: ("O%d" % step, tok[1]))
            flagged = flagged or getattr(b, "_vmon_pair_merge", False)
            st.seen("fragment_vs_structure_pair", "%s+%s" % ("pair" if len(a.pair_coeffs) else ("nopair" if len(a.atom_type_elements) else "untyped"), "pair" if len(f.pair_coeffs) else "nopair"))
        elif kind == "rep":
            b = a.replicate(tuple(op[1]))
            # same crystal in a larger cell: every id once per image (C12 decides the geometry in depth; here the type data)
            nimg = int(np.prod(op[1]))
            mb = AM.resolve(b)
            bad = []
            if len(mb.atoms) != nimg * len(m0.atoms):
                bad.append(("count", "replicate%s of %d atoms gave %d" % (tuple(op[1]), len(m0.atoms), len(mb.atoms))))
            base = {x["id"]: x for x in m0.atoms}
            for x in mb.atoms:
                y = base.get(x["id"])
                if y is None or any(x[f] != y[f] for f in ("el", "label", "mass", "pair", "group", "extras")):
                    bad.append(("type_data", "a replicated copy of atom %s does not resolve to the original's data" % (x["id"],)))
                    break
            for kd in AM.KNAMES:
                if sorted(repr(t[1]) for t in mb.terms[kd]) != sorted(repr(t[1]) for t in m0.terms[kd] for _ in range(nimg)):
                    bad.append(("%s_type" % kd, "replicated %s terms do not resolve to %d copies of the original coefficient texts" % (kd, nimg)))
            report(ctx, st, bad, flagged, w, what)
            b.charges = np.array([atomsgen.uid(4000.0 + 500.0 * step, i) for i in range(len(b))])
            pred = None
        elif kind == "pop":
            b = clone(a)
            if op[1] is None:
                b.pop()
                gone = ids[-1]
            else:
                b.pop(op[1])
                gone = ids[op[1]]
            pred = AM.delete(m0, [gone])
        elif kind == "copy":
            b = a.copy()
            pred = m0
            # a copy is an object of its own: every in-place mutator applied to it must leave the original alone
            probe = a.copy()
            try:
                probe.translate(np.array([0.5, -0.25, 1.0]))
                pf = fragment(rng, a, 0, 9000.0, with_extras=True)
                probe.extend(pf)
                if len(probe) > 1:
                    del probe[[0]]
            except Exception as e:
                if type(e).__name__ == "PostBroken":
                    raise
                ctx.fail("%s: mutating a copy raised %s: %s" % (what, type(e).__name__, str(e)[:160]), witness=w)
            st.count("copy_independence_probes")
        elif kind == "sub":
            idx = list(op[1])
            b = a[[idx[0], idx, np.array(idx)][step % 3] if len(idx) == 1 else [idx, np.array(idx), tuple(idx)][step % 3]]
            pred = AM.subset(m0, [ids[i] for i in op[1]])
            # a subset carries the type tables along; nothing else
        elif kind == "rpl":
            # single-site replacement: atom 0's element -> a 2-atom fragment whose first atom is that site (shared)
            el = a.elements[op[1]]
            pat = {"elements": [el], "positions": np.zeros((1, 3))}
            f = fragment(rng, a, 0, 3000.0 + 100.0 * step, cif_like=w['case']['cls'] == 'cif_like')
            f.positions = np.array([[0.0, 0.0, 0.0], [0.4, 0.3, 0.2]])
            f.atom_type_elements = list(f.atom_type_elements)
            # first fragment atom must be the site itself (same element, same coordinates) to be 'shared'
            t0 = int(f.atom_types[0])
            f.atom_type_elements[t0] = el
            from mofun.atomic_masses import ATOMIC_MASSES
            f.atom_type_masses = np.array([ATOMIC_MASSES[e] for e in f.atom_type_elements])
            if int(f.atom_types[1]) == t0:
                raise Unjudged("fragment atoms share a type")
            P = patterns.to_atoms(pat)
            obs = replcase.observe_replace(a, P, f, step, atol=0.05)
            if obs["found"] is None or obs["exception"] is not None:
                ctx.fail("%s: single-site replacement raised %r" % (what, obs["exception"]), witness=w)
                raise Unjudged("replace raised")
            b = obs["result"]
            mf = AM.resolve(f)
            fid = mf.ids()
            model, removed = m0, set()
            for k, mt in enumerate(obs["found"]):
                other = AM.resolve(f, ids=[fid[0], (step, k, fid[1])])
                model = AM.extend(model, other, {fid[0]: ids[mt[0]]}, retag=lambda tok: ("O%d" % step, tok[1]))
            pred = model
            oid, blk = [], 0
            for c in [float(x) for x in b.charges]:
                if c in set(ids):
                    oid.append(c)
                else:
                    oid.append((step, blk, c))
                    blk += 1
            bad = AM.compare(AM.resolve(b, ids=oid), pred, check_pos=False)
            flagged = flagged or getattr(b, "_vmon_pair_merge", False)
            report(ctx, st, bad, flagged, w, what)
            b.charges = np.array([atomsgen.uid(4000.0 + 500.0 * step, i) for i in range(len(b))])
            pred = None
            st.count("single_site_replacements")
        else:
            raise ValueError(op)
    except Unjudged:
        raise
    except Exception as e:
        if type(e).__name__ == "PostBroken":
            raise
        ctx.fail("%s raised %s: %s" % (what, type(e).__name__, str(e)[:200]), witness=dict(w, state=atomsgen.describe(a)))
        raise Unjudged("operation raised")
    st.count("operations_applied")
    st.seen("operation_kind", kind)
    d = deep_diff(a, pre)
    if d:
        ctx.fail("%s: the object the operation started from was modified (%s) - state shared between an object and its copy / result" % (what, d[:4]), witness=dict(w, state_before=atomsgen.describe(pre)))
    else:
        inv_a = inconsistencies(a)
        if inv_a:
            report(ctx, st, [(c, m) for c, m in inv_a], flagged, w, what + " (object the operation started from) invariant")
    if pred is not None:
        bad = AM.compare(AM.resolve(b), pred, check_pos=(kind != "ext"))
        report(ctx, st, bad, flagged, dict(w, state_before=atomsgen.describe(a)), what)
    inv = inconsistencies(b)
    report(ctx, st, [(c, m) for c, m in inv], flagged, dict(w, state_before=atomsgen.describe(a)), what + " invariant")
    if len(b) >= 1 and not inv_blocks_file(inv):
        file_check(b, ctx, st, flagged, dict(w, state=atomsgen.describe(b)), what)
    if len(b) == 0:
        st.count("states_with_zero_atoms")
    for kd in AM.KNAMES:
        if len(getattr(b, "%s_types" % kd)) == 0 and len(getattr(b, "%s_type_coeffs" % kd)) > 0:
            st.seen("emptied_kind_with_table", kd)
    changed = kind in ("del", "ext", "rpl", "pop") and any(len(getattr(b, "%s_types" % kd)) != len(getattr(a, "%s_types" % kd)) for kd in AM.KNAMES)
    return b, changed


def inv_blocks_file(inv):
    return any(c in ("per_atom_length", "term_atom_range", "term_shape", "uninspectable", "term_type_length") for c, _ in inv)


def report(ctx, st, bad, flagged, w, what):
    if not bad:
        return
    fields = {f for f, _ in bad}
    if flagged and fields <= {"pair", "pair_table_covers_types"}:
        ctx.fail("%s: %s" % (what, bad[0][1]), witness=dict(w, fields=sorted(fields)), key=F8)
        st.count("known_finding_F8_observed")
        return
    for f, msg in bad[:3]:
        ctx.fail("%s: %s" % (what, msg), witness=dict(w, field=f))


def file_check(b, ctx, st, flagged, w, what):
    from mofun import Atoms
    import os
    from vmon.oracle.util import worker_dir, non_ascii, clone
    # one state in three goes through Atoms.save / Atoms.load with a path, and carries labels and coefficient comments as people
    # write them (Greek letters, angstrom and degree signs) - put on the harness's own copy of the state
    via_path = (len(b) + len(b.bonds) + len(b.atom_type_labels)) % 3 == 1
    path = os.path.join(worker_dir(), "state.lmpdat")
    if (len(b) + len(b.bonds) + len(b.atom_type_labels)) % 3 == 2 and len(b.atom_type_labels) >= 1:
        # another state in three has a type the user left unlabelled (the empty string) - again on the harness's own copy
        b = clone(b)
        labels = [str(x) for x in b.atom_type_labels]
        labels[len(b) % len(labels)] = ""
        b.atom_type_labels = np.array(labels) if isinstance(b.atom_type_labels, np.ndarray) else labels
        st.count("states_with_an_unlabelled_type_written_and_read_back")
    f = io.StringIO()
    try:
        if via_path:
            b = non_ascii(clone(b))
            b.save(path)
            with open(path, encoding="utf-8") as fh:
                f.write(fh.read())
            st.count("states_saved_to_and_loaded_from_a_path_with_non_ascii_text")
        else:
            b.save_lmpdat(f)
    except Exception as e:
        if type(e).__name__ == "PostBroken":
            raise
        ctx.fail("%s: the state cannot be written as a LAMMPS data file: %s: %s" % (what, type(e).__name__, str(e)[:160]), witness=w)
        return
    text = f.getvalue()
    d = lmpread.parse(text, atom_style="full")
    probs = lmpread.consistency_problems(d)
    bad = [(("pair", p) if p.startswith("Pair Coeffs lists types") else ("file", p)) for p in probs]
    oid = _unique_ids(b)
    mb = AM.resolve(b, ids=oid)
    bad += AM.compare(AM.from_lammps(d, ids=oid), mb, check_pos=False, fields=("label", "mass", "pair", "charge", "group"), term_extras=False, mass_tol=1e-6)
    report(ctx, st, bad, flagged, w, what + " written as LAMMPS data file")
    st.count("files_written_and_parsed")
    if any(f_ == "file" for f_, _ in bad):
        return
    try:
        contracts.PAIR_MERGE_CONTEXT[0] = bool(flagged)
        try:
            c = Atoms.load(path) if via_path else Atoms.load_lmpdat(io.StringIO(text))
        finally:
            contracts.PAIR_MERGE_CONTEXT[0] = False
    except Exception as e:
        if type(e).__name__ == "PostBroken":
            raise
        if flagged:
            ctx.fail("%s: the file cannot be read back: %s" % (what, type(e).__name__), witness=w, key=F8)
        else:
            ctx.fail("%s: the file mofun wrote cannot be read back: %s: %s" % (what, type(e).__name__, str(e)[:160]), witness=w)
        return
    bad = AM.compare(AM.resolve(c, ids=oid if len(c) == len(oid) else None), mb, check_pos=False, fields=("el", "label", "mass", "pair", "charge", "group"), term_extras=False, mass_tol=1e-6)
    report(ctx, st, bad, flagged, w, what + " read back from its LAMMPS data file")
    # ... and every coefficient table, also of a kind that has (or has by now) no terms, entry for entry
    if not flagged:
        for name in ["pair_coeffs"] + ["%s_type_coeffs" % k for k in atomsgen.KNAMES]:
            x, y = [str(v).split("#")[0].split() for v in getattr(c, name)], [str(v).split("#")[0].split() for v in getattr(b, name)]
            if x != y:
                ctx.fail("%s: %s read back from the LAMMPS data file has %d entries %s, the structure's has %d %s" % (what, name, len(x), x[:2], len(y), y[:2]), witness=w)
        st.count("coefficient_tables_read_back")
    # "reads back to the same structure": cell and coordinates to the printed precision (6 decimals)
    if b.cell is not None and len(c) == len(b):
        if c.cell is None or np.abs(np.array(c.cell, float) - np.array(b.cell, float)).max() > 0.5e-6 + 1e-9:
            ctx.fail("%s: cell read back from the LAMMPS data file is %s, the structure's is %s" % (what, None if c.cell is None else np.array(c.cell, float).tolist(), np.array(b.cell, float).tolist()), witness=w)
        elif len(b) and np.abs(np.asarray(c.positions, float) - np.asarray(b.positions, float)).max() > 0.5e-6 + 1e-9:
            ctx.fail("%s: positions read back from the LAMMPS data file differ by %.3g" % (what, np.abs(np.asarray(c.positions, float) - np.asarray(b.positions, float)).max()), witness=w)
        st.count("cells_and_positions_read_back")
    st.count("files_read_back")


def _unique_ids(b):
    seen, out = {}, []
    for c in [float(x) for x in b.charges]:
        k = seen.get(c, 0)
        seen[c] = k + 1
        out.append(c if k == 0 else (c, k))
    return out


def _fmt(op):
    return "%s%s" % (op[0], list(op[1:]))


def run_case(case, ctx):
    rng = np.random.default_rng(case["s"])
    st = ctx.stats
    try:
        a0 = initial(rng, case["n"], case["cls"])
    except Exception as e:
        if type(e).__name__ == "PostBroken":
            raise
        ctx.fail("constructing a consistent structure of class %s raised %s: %s" % (case["cls"], type(e).__name__, str(e)[:200]), witness={"case": case})
        return
    w = {"case": {k: v for k, v in case.items()}, "initial": atomsgen.describe(a0)}
    inv = inconsistencies(a0)
    report(ctx, st, [(c, m) for c, m in inv], False, w, "initial structure invariant")
    st.seen("initial_class", case["cls"])
    any_changed = False
    if case["kind"] == "exhaustive":
        ops0 = op_list(len(a0), a0, np.random.default_rng(case["s"] + 1))
        if case["first"] >= len(ops0):
            return
        seqs = 0

        def rec(a, depth, prefix, seed):
            nonlocal seqs, any_changed
            ops = [ops0[case["first"]]] if depth == 0 else op_list(len(a), a, np.random.default_rng(seed))
            if depth > 0 and len(a) > 4:
                ops = ops[:14]
            for oi, op in enumerate(ops):
                r2 = np.random.default_rng([case["s"], depth, oi])
                try:
                    b, changed = apply_op(a, op, r2, depth + 1, ctx, st, dict(w, history=prefix + [_fmt(op)]))
                except Unjudged:
                    continue
                any_changed |= changed
                seqs += 1
                if depth + 1 < case["depth"] and len(ctx.violations) < 20:
                    rec(b, depth + 1, prefix + [_fmt(op)], seed + 17 * (oi + 1))
        rec(a0, 0, [], case["s"] + 1)
        st.count("exhaustive_sequences", seqs)
        fp = ["exhaustive", case["s"], case["first"]]
    else:
        a = a0
        hist = []
        for step in range(case["length"]):
            ops = op_list(len(a), a, rng)
            if len(a) > 12:
                ops = [o for o in ops if o[0] != "rep"]
            op = ops[int(rng.integers(len(ops)))]
            hist.append(_fmt(op))
            try:
                a, changed = apply_op(a, op, rng, step + 1, ctx, st, dict(w, history=list(hist)))
            except Unjudged:
                break
            any_changed |= changed
            if ctx.violations:
                break
        st.count("random_sequences")
        st.count("random_sequence_steps", len(hist))
        fp = ["random", case["s"]]
        if any_changed and len(hist) >= 3:
            ctx.sample({"initial": atomsgen.describe(a0), "history": hist})
    if any_changed:
        ctx.nontrivial(fp)
    if case["kind"] == "exhaustive" and case["first"] == 0 and case["n"] == 3:
        ctx.sample({"initial": atomsgen.describe(a0), "enumeration": "first operation %s, then every operation of the alphabet to depth %d" % (_fmt(op_list(len(a0), a0, np.random.default_rng(0))[0]), case["depth"])})


def exhaustive(tier):
    return True   # operation alphabet to the stated depth from every generated initial structure


def requirements(stats, tier):
    need = []
    if stats.get("operations_applied") < (3000 if tier == "quick" else 100000):
        need.append("too few operations applied: %d" % stats.get("operations_applied"))
    if stats.get("states_with_an_unlabelled_type_written_and_read_back") < (200 if tier == "quick" else 10000):
        need.append("states with an unlabelled type written and read back: %d" % stats.get("states_with_an_unlabelled_type_written_and_read_back"))
    if stats.get("states_saved_to_and_loaded_from_a_path_with_non_ascii_text") < (200 if tier == "quick" else 10000):
        need.append("states saved to and loaded from a path, with non-ASCII labels and comments: %d" % stats.get("states_saved_to_and_loaded_from_a_path_with_non_ascii_text"))
    for k in ("del", "ext", "rep", "copy", "sub", "rpl", "pop"):
        if not stats.has("operation_kind", k):
            need.append("operation %s never applied" % k)
    if stats.nseen("emptied_kind_with_table") < 3:
        need.append("'kind emptied while its table remains' reached for only %d kinds" % stats.nseen("emptied_kind_with_table"))
    if stats.get("states_with_zero_atoms") < 10:
        need.append("'all atoms deleted' reached only %d times" % stats.get("states_with_zero_atoms"))
    if stats.get("files_written_and_parsed") < (2000 if tier == "quick" else 60000) or stats.get("files_read_back") < (1500 if tier == "quick" else 40000):
        need.append("LAMMPS files written %d / read back %d" % (stats.get("files_written_and_parsed"), stats.get("files_read_back")))
    if stats.get("contract_eval.C09.invariant") < stats.get("operations_applied"):
        need.append("hooked invariant evaluated fewer times than operations were applied")
    if stats.nseen("initial_class") < 6:
        need.append("not all initial classes observed")
    return need
