"""C19 - term enumeration is complete and term typing depends only on UFF types."""
import itertools

import numpy as np

from vmon.oracle import uffref

PROPERTY = "C19"
RULE = ("Random bond graphs of 2-14 atoms without three-membered rings in which every atom has a bond: trees, trees with "
        "ring closures, ring assemblies, metal nodes of degree 4-8, disconnected unions; bonds listed in random order "
        "and direction. UFF types drawn from the whole table or from a small pool (forces shared types); exclusion set "
        "empty / random / a whole fragment / a few atoms of the fragment plus 18-40 atoms scattered over a host of 1800-3200 atoms without terms. Oracles: brute-force enumeration of angles and dihedrals (multiset modulo "
        "reversal); two terms share a type iff their reversal-canonical UFF sequences (dihedrals: plus the number of "
        "torsions about the central bond, counted before exclusion) are equal; each type's coefficient line equals the "
        "reference UFF form to printed precision; undefined torsions dropped; excluded terms dropped; per-term "
        "coefficients keyed by original atom names are unchanged under renaming, list permutation and direction "
        "flips; retyped tables agree with per-atom types. Non-trivial: graph has a ring or a node of degree >= 3 and "
        "at least two terms share a type; distinct by generator seed.")
ASSUMPTIONS = ["type sequences for which the repository documents that it cannot build a torsion (raises) are expected to raise, not judged further",
               "the types Du and Lw6+3, whose element is not in the mass table, are not used (retyping is undefined for them)"]
ANCHOR_FUNCS = [("mofun/rough_uff.py", "calc_angles"), ("mofun/rough_uff.py", "calc_dihedrals"), ("mofun/rough_uff.py", "assign_bond_types"),
                ("mofun/rough_uff.py", "assign_angle_types"), ("mofun/rough_uff.py", "assign_dihedral_types"), ("mofun/rough_uff.py", "retype_atoms_from_uff_types"),
                ("mofun/helpers.py", "typekey"), ("mofun/rough_uff.py", "delete_if_all_in_set")]
REQUIRED_LINES = [("mofun/rough_uff.py", "del(unique_dihedral_types[i])"), ("mofun/rough_uff.py", "deletion_list.append(i)")]
JOBS = {"quick": 4, "thorough": 16}
POOL = ["C_R", "C_2", "C_3", "O_2", "O_3", "N_R", "H_", "Zr8f4", "O_1", "S_3+2", "N_1", "Cu4+2", "N_3", "O_R"]
HALF = 0.5e-6


def cases(tier, seed):
    rng = np.random.default_rng([19, seed])
    n = 400 if tier == "quick" else 300000
    return [{"s": int(rng.integers(1 << 30)), "shape": ["tree", "rings", "assembly", "metal", "union"][j % 5],
             "types": ["pool", "table", "tiny", "siblings"][(j // 5) % 4], "exclude": ["none", "random", "fragment"][(j // 15) % 3]} for j in range(n)]


def has_triangle(adj, a, b):
    return bool(adj[a] & adj[b])


def gen_graph(rng, shape):
    def tree(n, base=0, maxdeg=4):
        edges, deg = [], {base: 0}
        for v in range(base + 1, base + n):
            cands = [u for u in deg if deg[u] < maxdeg]
            u = cands[int(rng.integers(len(cands)))]
            edges.append((u, v))
            deg[u] += 1
            deg[v] = 1
        return edges
    if shape == "tree":
        n = int(rng.integers(2, 15))
        edges = tree(n)
    elif shape == "metal":
        k = int(rng.integers(4, 14))          # up to 13 neighbours (12-coordinate nodes and beyond: no coordination limit in the enumeration)
        edges = [(0, i) for i in range(1, k + 1)]
        n = k + 1
        extra = int(rng.integers(0, max(1, 14 - n + 1)))
        for v in range(n, n + extra):
            edges.append((int(rng.integers(1, v)), v))
        n += extra
    elif shape == "union":
        n1 = int(rng.integers(2, 8))
        n2 = int(rng.integers(2, 8))
        edges = tree(n1) + tree(n2, base=n1)
        n = n1 + n2
    else:
        n = int(rng.integers(4, 15))
        edges = tree(n, maxdeg=3)
    adj = {i: set() for i in range(n)}
    for a, b in edges:
        adj[a].add(b)
        adj[b].add(a)
    if shape in ("rings", "assembly"):
        want = 1 if shape == "rings" else int(rng.integers(2, 4))
        tries = 0
        while want > 0 and tries < 200:
            tries += 1
            a, b = [int(x) for x in rng.choice(n, size=2, replace=False)]
            if b in adj[a] or has_triangle(adj, a, b):
                continue
            adj[a].add(b)
            adj[b].add(a)
            edges.append((a, b))
            want -= 1
    return n, edges, adj


def ref_angles(adj):
    out = []
    for n_, nb in adj.items():
        for a, b in itertools.combinations(sorted(nb), 2):
            out.append(canon((a, n_, b)))
    return sorted(out)


def ref_dihedrals(edges, adj):
    out = []
    for j, k in edges:
        for i in adj[j] - {k}:
            for l in adj[k] - {j}:
                out.append(canon((i, j, k, l)))
    return sorted(out)


def canon(t):
    t = tuple(int(x) for x in t)
    r = tuple(reversed(t))
    return min(t, r)


def parse_coeff(s):
    body, _, comment = str(s).partition("#")
    return body.split(), comment.split()


def nums_close(tokens, ref):
    """tokens: printed strings; ref: reference values (str compared exactly, numbers to the printed precision)"""
    if len(tokens) != len(ref):
        return False
    for t, r in zip(tokens, ref):
        if isinstance(r, str):
            if t != r:
                return False
        elif isinstance(r, int) and not isinstance(r, bool):
            if int(float(t)) != r or float(t) != r:
                return False
        else:
            if abs(float(t) - r) > HALF + 1e-12 * abs(r):
                return False
    return True


def build_atoms(n, bonds, elements, type_per_atom=False):
    from mofun import Atoms
    from mofun.atomic_masses import ATOMIC_MASSES
    if type_per_atom:
        # every atom has an atom type of its own (as in a data file written by a tool that types atoms one by one), the type table
        # listed in the reverse order of the atoms: as many types as atoms, and type numbers that are not the atom numbers
        return Atoms(atom_types=[n - 1 - i for i in range(n)], positions=np.zeros((n, 3)), atom_type_elements=list(reversed(elements)),
                     atom_type_masses=[ATOMIC_MASSES.get(e, 1.0) for e in reversed(elements)], atom_type_labels=["%s%d" % (e, n - 1 - k) for k, e in enumerate(reversed(elements))],
                     bonds=bonds, bond_types=[0] * len(bonds))
    types = list(dict.fromkeys(elements))
    return Atoms(atom_types=[types.index(e) for e in elements], positions=np.zeros((n, 3)), atom_type_elements=types,
                 atom_type_masses=[ATOMIC_MASSES.get(e, 1.0) for e in types], atom_type_labels=types,
                 bonds=bonds, bond_types=[0] * len(bonds))


RULESETS = [None, None, [({"C_R", "N_R"}, 1.41), ({"C_R"}, 1.5)], [({"C_R", "O_2"}, 1.5), ({"Zr8f4", "O_2"}, 0.5), ({"C_2"}, 1), ({"O_3", "C_3"}, 2)]]


def run_pipeline(n, bonds, utypes, exclude, rules=None, index_dtype=None, type_per_atom=False):
    """the documented parameterisation workflow on the real functions -> atoms (or the exception from dihedral typing).
    index_dtype: the bond list as an index array of another integer width (as read with np.loadtxt(dtype=np.int32), from HDF5, ...)"""
    import mofun.rough_uff as ru
    els = [t[0:2].replace("_", "") if t != "Du" else "H" for t in utypes]
    a = build_atoms(n, bonds, els, type_per_atom=type_per_atom)
    if index_dtype is not None:
        a.bonds = np.asarray(a.bonds).astype(index_dtype)
    a.angles = ru.calc_angles(a.bonds)
    a.dihedrals = ru.calc_dihedrals(a.bonds)
    enum = (np.asarray(a.angles).reshape(-1, 3).copy(), np.asarray(a.dihedrals).reshape(-1, 4).copy())
    ex = set(exclude) if exclude is not None else None
    ru.assign_bond_types(a, utypes, bond_order_rules=rules, exclude=ex)
    ru.assign_angle_types(a, utypes, bond_order_rules=rules, exclude=ex)
    err = None
    try:
        ru.assign_dihedral_types(a, utypes, bond_order_rules=rules, exclude=ex)
    except Exception as e:
        if type(e).__name__ == "PostBroken":
            raise
        err = e
    return a, enum, err


def term_table(a, kind, names):
    """{canonical tuple of original atom names: normalised coefficient text} for the terms of `a`"""
    arr = np.asarray(getattr(a, {"bond": "bonds", "angle": "angles", "dihedral": "dihedrals"}[kind]))
    w = {"bond": 2, "angle": 3, "dihedral": 4}[kind]
    arr = arr.reshape(-1, w)
    types = list(getattr(a, "%s_types" % kind))
    table = list(getattr(a, "%s_type_coeffs" % kind))
    out = {}
    for row, t in zip(arr, types):
        key = canon(tuple(names[int(i)] for i in row))
        body, comment = parse_coeff(table[int(t)])
        nb = min(w, len(comment))
        seq = tuple(comment[:nb])
        out.setdefault(key, []).append((tuple(body), min(seq, tuple(reversed(seq))), tuple(comment[nb:])))
    return {k: sorted(v) for k, v in out.items()}


def run_case(case, ctx):
    from mofun.uff4mof import UFF4MOF
    from vmon.checks.c18 import MAIN_GROUP
    import mofun.rough_uff as ru
    from mofun.atomic_masses import ATOMIC_MASSES
    rng = np.random.default_rng(case["s"])
    st = ctx.stats
    n, edges, adj = gen_graph(rng, case["shape"])
    if case["types"] == "table":
        # Du and Lw6+3 name no element of the mass table: they cannot be retyped and are left out (stated assumption)
        keys = [k for k in UFF4MOF if k[0:2].replace("_", "") in ATOMIC_MASSES]
        utypes = [keys[int(i)] for i in rng.integers(0, len(keys), n)]
    elif case["types"] == "siblings":
        # five-character labels that differ from a sibling only in their last character(s) (oxidation state, geometry suffix),
        # bonded to one another: mixed-valence nodes and the like
        sib = [["S_3+2", "S_3+4", "S_3+6"], ["Fe6+2", "Fe6+3"], ["Mn6+2", "Mn6+3"], ["O_3_z", "O_3_M", "O_3_f"], ["P_3+3", "P_3+5", "P_3+q"], ["W_3+4", "W_3+6"], ["Cu4+2"], ["Zr8f4"]]
        fam = [sib[int(i)] for i in rng.choice(len(sib), size=3, replace=False)]
        pool = [t for f in fam for t in f]
        utypes = [pool[int(i)] for i in rng.integers(0, len(pool), n)]
    elif case["types"] == "tiny":
        pool = [POOL[int(i)] for i in rng.choice(len(POOL), size=2, replace=False)]
        utypes = [pool[int(i)] for i in rng.integers(0, 2, n)]
    else:
        utypes = [POOL[int(i)] for i in rng.integers(0, len(POOL), n)]
    order = rng.permutation(len(edges))
    bonds = [tuple(edges[i]) if rng.integers(2) else tuple(reversed(edges[i])) for i in order]
    if case["exclude"] == "none":
        exclude = None
    elif case["exclude"] == "random":
        exclude = [int(x) for x in rng.choice(n, size=int(rng.integers(0, n + 1)), replace=False)]
    else:
        start = int(rng.integers(n))
        comp, todo = {start}, [start]
        while todo and len(comp) < max(4, n // 2):
            for nb in adj[todo.pop()]:
                if nb not in comp:
                    comp.add(nb)
                    todo.append(nb)
        exclude = sorted(comp)
    if case["exclude"] == "random" and case["s"] % 3 == 0:
        # the bonded fragment inside a large host of atoms without terms (a molecule in a framework held rigid, a solute in a box
        # of ions), the exclusion set a few atoms of the fragment plus two or three dozen host atoms scattered over the whole
        # index range: sparse and wide compared with the term tables
        host = int(rng.integers(1800, 3200))
        utypes = list(utypes) + [["He4+4", "Ar4+4", "Na", "Cl", "Zr8f4", "O_3"][int(i)] for i in rng.integers(0, 6, host)]
        utypes = [t if t in UFF4MOF else "Ar4+4" for t in utypes]
        inside = [int(x) for x in rng.choice(n, size=int(rng.integers(0, min(n, 6) + 1)), replace=False)]
        exclude = inside + [int(x) for x in n + rng.choice(host, size=int(rng.integers(18, 40)), replace=False)]
        n = n + host
        for i_ in range(n - host, n):
            adj[i_] = set()
        st.count("exclusion_sets_scattered_over_a_host_of_some_thousand_atoms")
    w = {"n": n, "bonds": bonds, "uff_types": utypes if n < 100 else utypes[:40], "exclude": exclude}

    def fail(msg, cls=None):
        ctx.fail(msg, witness=dict(w, clause=cls))

    rules = RULESETS[case["s"] % len(RULESETS)]
    if rules is not None:
        st.count("graphs_typed_with_user_bond_order_rules")
    idt = [None, np.int32, None, np.int16, None, np.uint32][case["s"] % 6]
    if idt is not None:
        st.count("graphs_whose_bond_list_is_an_index_array_of_another_integer_width")
    tpa = case["s"] % 5 in (1, 3)
    if tpa:
        st.count("graphs_with_one_atom_type_per_atom_listed_in_another_order")
    a, (angles, dihedrals), err = run_pipeline(n, bonds, utypes, exclude, rules, index_dtype=idt, type_per_atom=tpa)
    st.count("graphs")
    st.seen("shape", case["shape"])
    if max(len(v) for v in adj.values()) >= 9:
        st.count("graphs_with_an_atom_of_nine_or_more_neighbours")
    # --- enumeration
    ra, rd = ref_angles(adj), ref_dihedrals(edges, adj)
    ga = sorted(canon(t) for t in angles)
    gd = sorted(canon(t) for t in dihedrals)
    if ga != ra:
        fail("angles enumerated %s..., every pair of bonds sharing an atom gives %s... (%d vs %d)" % (ga[:5], ra[:5], len(ga), len(ra)), "angles")
    if gd != rd:
        fail("dihedrals enumerated %d, chains i-j-k-l around every bond give %d; unexpected %s missing %s" %
             (len(gd), len(rd), sorted(set(gd) - set(rd))[:3], sorted(set(rd) - set(gd))[:3]), "dihedrals")
    for row in angles:
        if not (int(row[0]) in adj[int(row[1])] and int(row[2]) in adj[int(row[1])]):
            fail("angle %s does not have its middle atom bonded to both ends" % (row.tolist(),), "angles")
    for row in dihedrals:
        i, j, k, l = [int(x) for x in row]
        if not (i in adj[j] and k in adj[j] and l in adj[k]):
            fail("dihedral %s is not a bonded chain" % (row.tolist(),), "dihedrals")
    st.count("angles_enumerated", len(ra))
    st.count("dihedrals_enumerated", len(rd))
    # the same molecule somewhere further down a large structure: every atom index shifted by K (bond list as array and as tuples);
    # the enumeration must be the shifted one
    if case["s"] % 4 == 0:
        K = [300, 1000, 70000, 257][case["s"] // 4 % 4]
        for form in ("array", "tuples"):
            bb = np.asarray(bonds, dtype=int) + K
            arg = bb if form == "array" else [tuple(int(v) for v in r) for r in bb]
            try:
                sa = sorted(canon(tuple(int(v) - K for v in t)) for t in np.asarray(ru.calc_angles(arg)).reshape(-1, 3))
                sd = sorted(canon(tuple(int(v) - K for v in t)) for t in np.asarray(ru.calc_dihedrals(arg)).reshape(-1, 4))
            except Exception as e:
                if type(e).__name__ == "PostBroken":
                    raise
                fail("enumeration of the same bonds with every index shifted by %d (%s) raised %s" % (K, form, type(e).__name__), "shifted_indices")
                continue
            st.count("enumerations_with_shifted_indices")
            if sa != ra or sd != rd:
                fail("with every atom index shifted by %d (bonds given as %s) the enumeration differs: %d angles / %d dihedrals instead of %d / %d" %
                     (K, form, len(sa), len(sd), len(ra), len(rd)), "shifted_indices")
    # --- typing
    exs = set(exclude) if exclude is not None else set()

    def excluded(tup, minlen):
        return exclude is not None and len(exs) >= minlen and all(int(x) in exs for x in tup)
    main_group = set(MAIN_GROUP)
    # bonds
    want_b = [canon(b) for b in bonds if not excluded(b, 2)]
    got_b = [canon(b) for b in np.asarray(a.bonds).reshape(-1, 2)]
    if sorted(got_b) != sorted(want_b):
        fail("bonds after exclusion %s, expected %s" % (sorted(got_b)[:6], sorted(want_b)[:6]), "exclude")
    want_a = [t for t in ra if not excluded(t, 3)]
    got_a = sorted(canon(t) for t in np.asarray(a.angles).reshape(-1, 3))
    if got_a != sorted(want_a):
        fail("angles after exclusion: %d, expected %d" % (len(got_a), len(want_a)), "exclude")
    per_bond = {}
    for t in rd:
        per_bond[canon((t[1], t[2]))] = per_bond.get(canon((t[1], t[2])), 0) + 1

    def seqkey(tup):
        s = tuple(utypes[int(i)] for i in tup)
        return min(s, tuple(reversed(s)))
    expect_raise = False
    want_d = []
    for t in rd:
        if excluded(t, 4):
            continue
        s = seqkey(t)
        M = per_bond[canon((t[1], t[2]))]
        try:
            p = uffref.torsion(UFF4MOF, main_group, *s, M=M, rules=rules)
        except uffref.Unsupported:
            expect_raise = True
            continue
        if p is not None:
            want_d.append(t)
    if expect_raise:
        st.count("dihedral_typing_expected_to_raise")
        if err is None:
            fail("dihedral typing returned although a torsion the library documents as unsupported is present", "dihedral_raise")
    elif err is not None:
        fail("assign_dihedral_types raised %s: %s" % (type(err).__name__, str(err)[:200]), "dihedral_raise")
    kinds = [("bond", 2, uffref.bond), ("angle", 3, uffref.angle)]
    if err is None and not expect_raise:
        got_d = sorted(canon(t) for t in np.asarray(a.dihedrals).reshape(-1, 4))
        if got_d != sorted(want_d):
            fail("dihedrals kept %d, expected %d (undefined torsions and excluded terms dropped); unexpected %s missing %s" %
                 (len(got_d), len(want_d), sorted(set(got_d) - set(want_d))[:3], sorted(set(want_d) - set(got_d))[:3]), "dihedral_drop")
        if len(rd) > len(want_d):
            st.count("graphs_with_dropped_dihedrals")
        kinds.append(("dihedral", 4, None))
    shared = False
    for kind, wdt, reffn in kinds:
        arr = np.asarray(getattr(a, {"bond": "bonds", "angle": "angles", "dihedral": "dihedrals"}[kind])).reshape(-1, wdt)
        types = [int(t) for t in getattr(a, "%s_types" % kind)]
        table = list(getattr(a, "%s_type_coeffs" % kind))
        if len(types) != len(arr):
            fail("%d %s types for %d terms" % (len(types), kind, len(arr)), "typing")
            continue
        keys = []
        for row in arr:
            k = seqkey(row)
            if kind == "dihedral":
                k = k + (per_bond[canon((int(row[1]), int(row[2])))],)
            keys.append(k)
        t2k, k2t = {}, {}
        for t, k in zip(types, keys):
            if t2k.setdefault(t, k) != k:
                fail("%s type %d is shared by terms with different UFF sequences %s and %s" % (kind, t, t2k[t], k), "typing_iff")
            if k2t.setdefault(k, t) != t:
                fail("%s terms with the same UFF sequence %s have different types %d and %d" % (kind, k, k2t[k], t), "typing_iff")
        if len(keys) > len(set(keys)):
            shared = True
        if types and (min(types) < 0 or max(types) >= len(table)):
            fail("%s type ids %s outside the coefficient table of %d entries" % (kind, sorted(set(types)), len(table)), "typing")
            continue
        for t, k in t2k.items():
            body, comment = parse_coeff(table[t])
            if kind == "bond":
                ref = list(uffref.bond(UFF4MOF, *k, rules=rules))
                okc = tuple(comment) in (k, tuple(reversed(k)))
            elif kind == "angle":
                ref = list(uffref.angle(UFF4MOF, *k, rules=rules))
                okc = tuple(comment) in (k, tuple(reversed(k)))
            else:
                s, M = k[:4], k[4]
                ref = list(uffref.torsion(UFF4MOF, main_group, *s, M=M, rules=rules))
                okc = tuple(comment[:4]) in (s, tuple(reversed(s))) and comment[4:] == ["M=%d" % M]
            if not nums_close(body, ref):
                fail("%s type %d (%s): coefficient line %r, UFF form gives %s" % (kind, t, k, table[t], ref), "coefficients")
            if not okc:
                fail("%s type %d: comment %s does not name the sequence %s" % (kind, t, comment, k), "coefficients")
            st.count("type_coefficients_checked")
    # --- invariance under renaming / permutation / flips
    perm = rng.permutation(n)            # new index of old atom i is perm[i]
    inv = np.argsort(perm)
    bonds2 = [(int(perm[a_]), int(perm[b_])) if rng.integers(2) else (int(perm[b_]), int(perm[a_])) for a_, b_ in [bonds[i] for i in rng.permutation(len(bonds))]]
    utypes2 = [utypes[int(inv[j])] for j in range(n)]
    ex2 = None if exclude is None else [int(perm[i]) for i in exclude]
    a2, _, err2 = run_pipeline(n, bonds2, utypes2, ex2, rules)
    if (err is None) != (err2 is None):
        fail("dihedral typing raises for one naming of the atoms and not for another", "invariance")
    names1 = list(range(n))
    names2 = [int(inv[j]) for j in range(n)]
    for kind in ("bond", "angle") + (("dihedral",) if err is None and err2 is None else ()):
        t1, t2 = term_table(a, kind, names1), term_table(a2, kind, names2)
        if t1 != t2:
            diff = [k for k in set(t1) | set(t2) if t1.get(k) != t2.get(k)][:3]
            fail("%s coefficients change under renaming / reordering: terms %s: %s vs %s" % (kind, diff, [t1.get(k) for k in diff], [t2.get(k) for k in diff]), "invariance")
        st.count("invariance_relations_checked")
    # --- retyping
    a3 = build_atoms(n, bonds, [t[0:2].replace("_", "") for t in utypes])
    ru.retype_atoms_from_uff_types(a3, utypes)
    for i in range(n):
        t = int(a3.atom_types[i])
        el = utypes[i][0:2].replace("_", "")
        if a3.atom_type_labels[t] != utypes[i] or a3.atom_type_elements[t] != el or abs(a3.atom_type_masses[t] - ATOMIC_MASSES[el]) > 1e-12:
            fail("after retyping atom %d (%s) resolves to label %s element %s mass %s" % (i, utypes[i], a3.atom_type_labels[t], a3.atom_type_elements[t], a3.atom_type_masses[t]), "retype")
            break
    if len(set(a3.atom_type_labels)) != len(a3.atom_type_labels) or set(a3.atom_type_labels) != set(utypes):
        fail("retyped label table %s is not the set of UFF types in use" % (list(a3.atom_type_labels),), "retype")
    # history: the same object is retyped again with the same types assigned to other atoms
    rot = [utypes[(i + 1) % n] for i in range(n)]
    ru.retype_atoms_from_uff_types(a3, rot)
    for i in range(n):
        t = int(a3.atom_types[i])
        el = rot[i][0:2].replace("_", "")
        if a3.atom_type_labels[t] != rot[i] or a3.atom_type_elements[t] != el or abs(a3.atom_type_masses[t] - ATOMIC_MASSES[el]) > 1e-12:
            fail("after retyping the same object a second time atom %d (%s) resolves to label %s element %s" % (i, rot[i], a3.atom_type_labels[t], a3.atom_type_elements[t]), "retype_twice")
            break
    ru.retype_atoms_from_uff_types(a3, utypes)
    ru.assign_pair_coeffs(a3)
    for t, lab in enumerate(a3.atom_type_labels):
        body, comment = parse_coeff(a3.pair_coeffs[t])
        if not nums_close(body, uffref.pair(UFF4MOF, lab)) or comment != [lab]:
            fail("pair coefficients of %s: %r, UFF gives %s" % (lab, a3.pair_coeffs[t], uffref.pair(UFF4MOF, lab)), "retype")
    st.count("retypings_checked")
    st.seen("type_source", case["types"])
    st.seen("exclude_class", case["exclude"])
    ring = len(edges) > n - (2 if case["shape"] == "union" else 1)
    if ring:
        st.count("graphs_with_rings")
    if max(len(v) for v in adj.values()) >= 5:
        st.count("graphs_with_high_degree_node")
    if (ring or max(len(v) for v in adj.values()) >= 3) and shared:
        ctx.nontrivial(case["s"])
    if ring and shared and n <= 8:
        ctx.sample({"bonds": bonds, "uff_types": utypes, "exclude": exclude, "angles": len(ra), "dihedrals": len(rd),
                    "bond_type_coeffs": [str(x) for x in a.bond_type_coeffs][:4]})


def requirements(stats, tier):
    need = []
    if stats.get("enumerations_with_shifted_indices") < (100 if tier == "quick" else 50000):
        need.append("enumerations with shifted atom indices: %d" % stats.get("enumerations_with_shifted_indices"))
    if stats.get("graphs") < (350 if tier == "quick" else 250000):
        need.append("too few graphs: %d" % stats.get("graphs"))
    if stats.get("graphs_whose_bond_list_is_an_index_array_of_another_integer_width") < (50 if tier == "quick" else 5000):
        need.append("graphs whose bond list is an int32/int16/uint32 array: %d" % stats.get("graphs_whose_bond_list_is_an_index_array_of_another_integer_width"))
    if stats.get("graphs_with_one_atom_type_per_atom_listed_in_another_order") < (50 if tier == "quick" else 5000):
        need.append("graphs with one atom type per atom: %d" % stats.get("graphs_with_one_atom_type_per_atom_listed_in_another_order"))
    if stats.get("graphs_with_an_atom_of_nine_or_more_neighbours") < (10 if tier == "quick" else 1000):
        need.append("graphs with an atom of nine or more neighbours: %d" % stats.get("graphs_with_an_atom_of_nine_or_more_neighbours"))
    if stats.get("exclusion_sets_scattered_over_a_host_of_some_thousand_atoms") < (15 if tier == "quick" else 5000):
        need.append("exclusion sets scattered over a host of some thousand atoms: %d" % stats.get("exclusion_sets_scattered_over_a_host_of_some_thousand_atoms"))
    if stats.nseen("shape") < 5 or stats.nseen("type_source") < 4 or stats.nseen("exclude_class") < 3:
        need.append("not all graph / type / exclusion classes observed")
    if stats.get("graphs_with_rings") < 20 or stats.get("graphs_with_high_degree_node") < 20:
        need.append("too few graphs with rings / high-degree nodes")
    if stats.get("graphs_with_dropped_dihedrals") < 10:
        need.append("dropping of undefined torsions observed fewer than 10 times")
    if stats.get("graphs_typed_with_user_bond_order_rules") < 50:
        need.append("graphs typed with user bond-order rules: %d" % stats.get("graphs_typed_with_user_bond_order_rules"))
    if stats.get("type_coefficients_checked") < 1000:
        need.append("too few type coefficient lines checked")
    return need
