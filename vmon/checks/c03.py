"""C03 - search results do not depend on how crystal or pattern are represented."""
import glob
import os

import numpy as np

from vmon import boot, events
from vmon.gen import patterns, planted
from vmon.oracle import geometry as G

from vmon.oracle.util import elements_of, clone

PROPERTY = "C03"
RULE = ("For a base search (structure, pattern, atol) the match set of the real search is recorded and compared, after "
        "renaming, with the match sets recorded for transformed inputs: whole structure shifted by a random vector "
        "and wrapped; atoms permuted; pattern rigidly rotated+translated; every valid hint class (both axis points, "
        "+orientation point, exactly one axis point under either keyword incl. index 0, one axis point plus an orientation point with the axis index above and below it, orientation point alone); "
        "hint triples whose orientation atom is only 1e-4..1e-3 A off the axis, on exact (noise-free) copies; "
        "other RNG seeds and stubbed choice schedules; a x b x c supercells (each clear unit-cell group must appear "
        "exactly a*b*c times). A group is compared only if it is clear: the proper Kabsch fit of the pattern onto the "
        "positions returned for it has max residual <= 0.12*atol in the run that reported it; other groups are gray. "
        "Structures: planted synthetic structures (all cell classes, 12 pattern classes) and the repository's real "
        "files (tests/uio66/uio66.cif, uio66-triclinic.lmpdat at atol 0.4, hkust-1-with-bonds.cif + benzene, "
        "docs/examples/uio66.cif with every docs pattern). Non-trivial: base search has at least one clear match; "
        "distinct by (structure, pattern, seed).")
ASSUMPTIONS = ["completeness against an independent matcher is C02's business; here only agreement between executions is judged",
               "hint triples are validated by the harness's own geometry after the documented auto-completion",
               "supercells are built with the real Atoms.replicate (its correctness is C12's business)",
               "the supercell relation is asserted only for cells wider than 2*(diameter+2*atol) in every direction (below that one unit-cell atom group can stand for two crystal occurrences)"]
ANCHOR_FUNCS = [("mofun/mofun.py", "find_pattern_in_structure"), ("mofun/helpers.py", "position_index_farthest_from_axis"), ("mofun/atoms.py", "Atoms.replicate")]
REQUIRED_LINES = [("mofun/mofun.py", "axisp2_idx = np.argmax(p_ss[axisp1_idx, :])"), ("mofun/mofun.py", "match_chosen = random.choice(good_indices)"),
                  ("mofun/mofun.py", "nvs = np.array([np.cross(cell[0], cell[1])")]
JOBS = {"quick": 6, "thorough": 16}
CLEAR = 0.12


def real_pairs():
    r = boot.repo_path
    pairs = [("tests/uio66/uio66.cif", "tests/uio66/uio66-linker.cml", 0.05), ("tests/uio66/uio66-triclinic.lmpdat", "tests/uio66/uio66-linker.cml", 0.4),
             ("tests/hkust-1/hkust-1-with-bonds.cif", "tests/molecules/benzene.xyz", 0.05)]
    for p in sorted(glob.glob(r("docs", "examples", "*.cml"))):
        pairs.append(("docs/examples/uio66.cif", os.path.relpath(p, boot.REPO), 0.05))
    return pairs


def cases(tier, seed):
    rng = np.random.default_rng([3, seed])
    n = 260 if tier == "quick" else 20000
    out = []
    for j in range(n):
        cell_cls = planted.CELL_CLASSES[j % len(planted.CELL_CLASSES)]
        out.append({"kind": "synthetic", "s": int(rng.integers(1 << 30)), "cell": cell_cls, "pattern": patterns.CLASSES[(j // 2) % len(patterns.CLASSES)],
                    "atol": [0.05, 0.2, 0.01, 0.5][(j // 3) % 4], "dims": [[2, 1, 1], [1, 2, 1], [1, 1, 2], [2, 2, 1], [1, 3, 2], [2, 1, 3]][j % 6]})
    # cells typed with whole numbers (nested list of ints / integer array), as a user writes Atoms(cell=[[12,0,0],[0,12,0],[0,0,12]])
    for j in range(30 if tier == "quick" else 2000):
        out.append({"kind": "synthetic", "s": int(rng.integers(1 << 30)), "cell": ["ortho", "ortho", "tri+-+", "upper_tri"][j % 4], "pattern": patterns.CLASSES[1 + j % (len(patterns.CLASSES) - 1)],
                    "atol": [0.05, 0.2, 0.01][j % 3], "dims": [[2, 1, 1], [1, 2, 1], [1, 1, 2], [2, 2, 1]][j % 4], "whole_number_cell": True})
    out.append({"kind": "pinned_hint_case", "s": 0})
    # supercells of a few thousand atoms (27 images of them: tens of thousands of candidate positions)
    for j in range(2 if tier == "quick" else 40):
        out.append({"kind": "big_supercell", "s": int(rng.integers(1 << 30)), "cell": ["ortho", "tri+-+"][j % 2], "atol": 0.05, "dims": [[5, 5, 5], [6, 5, 4], [4, 6, 5]][j % 3]})
    # a strict tolerance (1e-5, 1e-6 A) on exact copies, as used to tell apart nearly identical conformers: the tolerance is
    # absolute, also 100 A from the origin (supercells) - double precision leaves eight orders of magnitude of room
    for j in range(10 if tier == "quick" else 600):
        out.append({"kind": "tight_tolerance", "s": int(rng.integers(1 << 30)), "cell": ["ortho", "tri+-+", "general_tri", "tri--+", "ortho_big"][j % 5],
                    "pattern": ["asym4", "chiral4", "twofold", "pair_hetero"][j % 4], "atol": [1e-6, 1e-5][j % 2], "dims": [[4, 4, 4], [3, 5, 4], [5, 3, 3]][j % 3]})
    for j in range(36 if tier == "quick" else 3000):
        out.append({"kind": "near_degenerate_hints", "s": int(rng.integers(1 << 30)), "cell": ["ortho", "tri+-+", "general_tri", "tri--+"][j % 4],
                    "atol": [0.05, 0.2, 0.01][j % 3]})
    reps = 1 if tier == "quick" else 6
    for rep in range(reps):
        for k, (sp, pp, atol) in enumerate(real_pairs()):
            out.append({"kind": "real", "structure": sp, "pattern_file": pp, "atol": atol, "s": int(rng.integers(1 << 30)),
                        "dims": [[2, 1, 1], [1, 2, 1], [1, 1, 2], [1, 2, 2]][(k + rep) % 4] if (tier == "thorough" or k < 4) else None})
    return out


def load_any(path):
    from mofun import Atoms
    if path.endswith(".xyz"):
        import ase.io
        return Atoms.from_ase_atoms(ase.io.read(boot.repo_path(path)))
    return Atoms.load(boot.repo_path(path))


def run_search(structure, pattern, atol, hints=(None, None, None), seed=0, schedule="real"):
    """-> ({sorted index tuple: clear?}, n_reported, duplicates, exception)"""
    import mofun
    events.seed_all(seed)
    events.SCHEDULE["choice"] = schedule
    n0 = len(events.LOG)
    try:
        mofun.find_pattern_in_structure(structure, pattern, axisp1_idx=hints[0], axisp2_idx=hints[1], opoint_idx=hints[2], atol=atol)
    except Exception as e:
        if type(e).__name__ == "PostBroken":
            raise
        return None, 0, 0, e
    finally:
        events.SCHEDULE["choice"] = "real"
    ret = [e for e in events.LOG[n0:] if e["ev"] == "find.ret"][-1]
    out = {}
    ppos = ret["pattern_positions"]
    dups = 0
    for m, x in zip(ret["matches"], ret["positions"]):
        key = tuple(sorted(m))
        if len(ppos) == 1:
            clear = True
        else:
            _, _, rms_, mx, _ = G.kabsch(ppos, x)
            # clear = well inside the tolerance for the optimal fit AND for the documented anchored fit with the
            # auto-chosen axis/orientation atoms (what the code does when no hints are given)
            clear = mx <= CLEAR * atol and G.anchored_residual(ppos, x, (None, None, None)) <= 0.5 * atol
            # a reported group that is nowhere near the pattern (no proper rigid motion fits better than 3*sqrt(3)*atol RMS) is
            # not a borderline case either: whether it is reported must not depend on the representation
            if rms_ > 3 * np.sqrt(3) * atol:
                clear = True
        if key in out:
            dups += 1
        FOUND_AS[key] = (np.array(ppos, float), np.array(x, float))
        out[key] = clear or out.get(key, False)
    del events.LOG[n0:]
    return out, len(ret["matches"]), dups, None


FOUND_AS = {}      # atom group -> (pattern coordinates, matched positions in pattern order) of the run that reported it last
HINT_KEY = "ill-conditioned-hints-amplify-noise-beyond-tolerance"


def compare(ctx, st, base, other, what, w, rename=None, hints=None, atol=None, found_as=None):
    """groups clear in either run must be present in both (after renaming `other` back).
    hints: the hint triple of the transformed run (the base run has none)."""
    if rename is not None:
        other = {tuple(sorted(rename[i] for i in k)): v for k, v in other.items()}
    bad = False
    for k in sorted(set(base) | set(other)):
        inb, ino = k in base, k in other
        if inb and ino:
            continue
        clear = base.get(k, False) or other.get(k, False)
        if clear and hints is not None and found_as is not None and k in found_as:
            # the documented alignment pins the first axis atom, aligns the axis, then the orientation atom's azimuth; with
            # a short axis or a small lever it amplifies the copy's noise. What that alignment leaves for THESE hints:
            ppos, x = found_as[k]
            anch = G.anchored_residual(ppos, x, hints if not inb else hints) if inb else G.anchored_residual(ppos, x, (None, None, None))
            if anch > 0.9 * atol:
                ctx.fail("%s: atom group %s (optimal-fit residual well inside the tolerance) is %s with these hints: the anchored alignment they define leaves %.3g = %.2f*atol" %
                         (what, k, "lost" if inb else "only found", anch, anch / atol), witness=dict(w, transform=what, anchored_residual=anch), key=HINT_KEY)
                st.count("known_finding_hint_amplification_observed")
                continue
            if anch > 0.5 * atol:
                st.count("gray_groups_ignored")
                continue
        if clear:
            ctx.fail("%s: atom group %s is %s in the base search but %s after the transformation" % (what, k, "found" if inb else "absent", "found" if ino else "absent"),
                     witness=dict(w, transform=what, base=sorted(base)[:8], transformed=sorted(other)[:8]))
            bad = True
            break
        st.count("gray_groups_ignored")
    st.count("relations_checked")
    st.seen("relation", what.split(" ")[0])
    return not bad


def metamorphic(ctx, st, S, P, atol, rng, w, dims, seed, n_hint=4, real=False):
    from mofun import Atoms
    FOUND_AS.clear()
    base, nrep, dups, exc = run_search(S, P, atol, seed=seed)
    if exc is not None:
        ctx.fail("base search raised %s: %s" % (type(exc).__name__, str(exc)[:200]), witness=w)
        return None
    if dups:
        st.count("duplicate_reports_seen_(C02's business)")
    nclear = sum(1 for v in base.values() if v)
    st.count("base_searches")
    st.count("base_clear_groups", nclear)
    cell = np.array(S.cell, float)
    n = len(S)
    # 1. shift + wrap
    shift = rng.uniform(-1, 1, 3).dot(cell) * 1.7
    S1 = clone(S)
    S1.positions = G.wrap(cell, np.asarray(S.positions, float) + shift)
    r, _, _, exc = run_search(S1, P, atol, seed=seed)
    if exc is not None:
        ctx.fail("search on the shifted+wrapped structure raised %s" % type(exc).__name__, witness=w)
    else:
        compare(ctx, st, base, r, "shift+wrap by %s" % np.round(shift, 3).tolist(), w)
    # 2. permutation of the atoms
    perm = rng.permutation(n)              # new structure lists old atom perm[j] at position j
    S2 = Atoms(elements=[elements_of(S)[i] for i in perm], positions=np.asarray(S.positions, float)[perm], cell=cell)
    r, _, _, exc = run_search(S2, P, atol, seed=seed)
    if exc is not None:
        ctx.fail("search on the permuted structure raised %s" % type(exc).__name__, witness=w)
    else:
        compare(ctx, st, base, r, "permutation of the atom list", w, rename={j: int(perm[j]) for j in range(n)})
    # 2b. the same reordering done the other way: copy the (already searched) object and assign re-ordered arrays
    S2b = S.copy()
    S2b.positions = np.asarray(S.positions, float)[perm]
    S2b.atom_types = np.asarray(S.atom_types)[perm]
    S2b.charges = np.asarray(S.charges)[perm]
    S2b.groups = np.asarray(S.groups)[perm]
    if len(S.extra_atom_labels) == 0:
        r, _, _, exc = run_search(S2b, P, atol, seed=seed)
        if exc is not None:
            ctx.fail("search on the re-ordered copy raised %s" % type(exc).__name__, witness=w)
        else:
            compare(ctx, st, base, r, "permutation by assigning re-ordered arrays to a copy", w, rename={j: int(perm[j]) for j in range(n)})
    # 3. rigid motion of the pattern
    R = G.random_rotation(rng)
    P3 = clone(P)
    P3.positions = np.asarray(P.positions, float).dot(R.T) + rng.uniform(-5, 5, 3)
    r, _, _, exc = run_search(S, P3, atol, seed=seed)
    if exc is not None:
        ctx.fail("search with the rigidly moved pattern raised %s" % type(exc).__name__, witness=w)
    else:
        compare(ctx, st, base, r, "rigid-motion of the pattern", w)
    # 4. hints
    pat = {"positions": np.asarray(P.positions, float), "elements": list(P.elements)}
    for hi, hints in enumerate(patterns.valid_hint_sets(pat, rng, k=n_hint)[1:]):
        # indices arrive as Python ints from the command line and as numpy integers from np.argmax & co.
        as_given = tuple((np.int64(h) if (h is not None and hi % 2) else h) for h in hints)
        r, _, _, exc = run_search(S, P, atol, hints=as_given, seed=seed)
        if hi % 2:
            st.count("hints_given_as_numpy_integers")
        cls = "%s%s%s" % ("a" if hints[0] is not None else "-", "b" if hints[1] is not None else "-", "o" if hints[2] is not None else "-")
        st.seen("hint_class", cls)
        if 0 in hints:
            st.count("hints_with_index_0")
        if exc is not None:
            ctx.fail("search with the valid hints %s raised %s: %s" % (list(hints), type(exc).__name__, str(exc)[:160]), witness=dict(w, hints=list(hints)))
        else:
            compare(ctx, st, base, r, "hints %s" % (list(hints),), dict(w, hints=list(hints)), hints=hints, atol=atol, found_as=dict(FOUND_AS))
    # 5. RNG state
    for sched in ("first", "last", "rr", "real"):
        r, _, _, exc = run_search(S, P, atol, seed=seed + 7919, schedule=sched)
        if exc is None:
            compare(ctx, st, base, r, "rng schedule %s / other seed" % sched, w)
    # 6. supercell. The a*b*c relation presupposes that occurrences in the infinite crystal and atom groups of the unit cell
    # correspond one to one. In a cell narrower than 2*(diameter+2*atol) the same atoms can form the pattern through two
    # different periodic images: one atom group in the unit cell (C02: reported once), two per image in the supercell. No
    # implementation can satisfy the relation there, so it is asserted only above that width.
    if dims is not None and not np.all(G.perp_widths(cell) > 2 * (G.diameter(np.asarray(P.positions, float)) + 2 * atol)):
        st.count("supercell_relation_not_applicable_(cell narrower than twice the pattern)")
        dims = None
    if dims is not None:
        a, b, c = dims
        S6 = clone(S)
        S6.charges = np.arange(n, dtype=float)       # unit-cell identity of every atom survives replication
        big = S6.replicate((a, b, c))
        r, _, _, exc = run_search(big, P, atol, seed=seed)
        if exc is not None:
            ctx.fail("search on the %dx%dx%d supercell raised %s" % (a, b, c, type(exc).__name__), witness=w)
        else:
            unit = [int(round(x)) for x in big.charges]
            counts, clear_unit = {}, {}
            for k, clear in r.items():
                uk = tuple(sorted(unit[i] for i in k))
                counts[uk] = counts.get(uk, 0) + 1
                clear_unit[uk] = clear_unit.get(uk, False) or clear
            for uk in sorted(set(counts) | set(base)):
                clear = base.get(uk, False) or clear_unit.get(uk, False)
                if not clear:
                    st.count("gray_groups_ignored")
                    continue
                if len(set(uk)) != len(uk):
                    continue     # a supercell group using two images of one unit-cell atom has no unit-cell counterpart
                if counts.get(uk, 0) != a * b * c or uk not in base:
                    ctx.fail("supercell %dx%dx%d: unit-cell group %s is reported %d times (expected %d); in the unit cell it is %s" %
                             (a, b, c, uk, counts.get(uk, 0), a * b * c, "found" if uk in base else "not found"), witness=dict(w, dims=dims))
                    break
            st.count("relations_checked")
            st.seen("relation", "supercell")
            st.seen("supercell_dims", list(dims))
    return nclear


def run_case(case, ctx):
    st = ctx.stats
    rng = np.random.default_rng(case["s"])
    if case["kind"] == "synthetic":
        pat = patterns.make(rng, case["pattern"])
        atol = case["atol"]
        built = planted.build(rng, pat, case["cell"], atol, n_copies=1 if case["cell"].endswith("minimal") else int(rng.integers(1, 4)),
                              crossings=[int(x) for x in rng.integers(0, 4, 3)], poses=[planted.POSES[int(x)] for x in rng.integers(0, len(planted.POSES), 3)],
                              decoys=["mirror"] if rng.integers(2) else [], n_bystanders=int(rng.integers(0, 6)), n_distractors=int(rng.integers(0, 3)),
                              whole_number_cell=bool(case.get("whole_number_cell")))
        if built.get("int_cell"):
            st.count("synthetic_structures_with_a_cell_of_whole_numbers")
        S, P = built["atoms"], patterns.to_atoms(pat, table_order="reversed" if case["s"] % 5 == 1 else None)
        if case["s"] % 5 == 1 and len(set(pat["elements"])) >= 2:
            st.count("searches_with_a_pattern_whose_first_atom_is_not_of_the_first_type")
        if case["s"] % 7 == 3 and len(pat["elements"]) >= 2:
            # a pattern that asks for an element the structure does not contain (a fluorinated linker searched in the plain
            # framework): nothing matches, however the crystal is represented
            pe = list(pat["elements"])
            pe[-1] = "At"
            P = patterns.to_atoms(dict(pat, elements=pe))
            st.count("searches_for_a_pattern_with_an_element_the_structure_lacks")
        w = {"kind": "synthetic", "cell_class": case["cell"], "cell": np.round(built["cell"], 5).tolist(), "pattern_class": pat["cls"], "atol": atol,
             "pattern_elements": pat["elements"], "pattern_positions": np.round(pat["positions"], 5).tolist(), "planted": built["planted"], "n_atoms": len(S)}
        from vmon.contracts import c01_domain
        if not c01_domain(S, P, atol):
            st.count("out_of_domain_skipped")
            return
        # a supercell search keeps the domain (widths only grow)
        nclear = metamorphic(ctx, st, S, P, atol, rng, w, case["dims"], case["s"])
        st.seen("synthetic_cell_class", case["cell"])
        st.seen("synthetic_pattern_class", pat["cls"])
        if nclear:
            ctx.nontrivial(["synthetic", case["s"]])
            if len(S) <= 14:
                ctx.sample({"kind": "synthetic", "case": {k: case[k] for k in ("cell", "pattern", "atol", "dims")}, "n_atoms": len(S), "clear_base_matches": nclear})
        return
    if case["kind"] == "tight_tolerance":
        pat = patterns.make(rng, case["pattern"])
        atol = case["atol"]
        built = planted.build(rng, pat, case["cell"], 0.05, n_copies=int(rng.integers(1, 4)), crossings=[int(x) for x in rng.integers(0, 4, 3)], poses=["random"] * 3,
                              decoys=[], n_bystanders=int(rng.integers(2, 8)), n_distractors=0, perturb=0.0)
        S, P = built["atoms"], patterns.to_atoms(pat)
        w = {"kind": case["kind"], "cell_class": case["cell"], "cell": np.asarray(built["cell"], float).tolist(), "pattern_class": pat["cls"], "atol": atol,
             "pattern_elements": pat["elements"], "pattern_positions": np.asarray(pat["positions"], float).tolist(), "planted": built["planted"], "n_atoms": len(S),
             "structure_elements": elements_of(S), "structure_positions": np.asarray(S.positions, float).tolist()}
        from vmon.contracts import c01_domain
        if not c01_domain(S, P, atol):
            st.count("out_of_domain_skipped")
            return
        nclear = metamorphic(ctx, st, S, P, atol, rng, w, case["dims"], case["s"])
        if nclear:
            st.count("strict_tolerance_cases_with_clear_matches")
            st.count("strict_tolerance_clear_matches", nclear)
            ctx.nontrivial([case["kind"], case["s"]])
        return
    if case["kind"] == "big_supercell":
        pat = patterns.make(rng, ["asym4", "chiral4", "twofold", "pair_hetero"][case["s"] % 4])
        atol = case["atol"]
        built = planted.build(rng, pat, case["cell"], atol, n_copies=2, crossings=[int(x) for x in rng.integers(1, 4, 2)], poses=["random"] * 2,
                              decoys=[], n_bystanders=36, n_distractors=3)
        S, P = built["atoms"], patterns.to_atoms(pat)
        from vmon.contracts import c01_domain
        cell = np.array(S.cell, float)
        if not c01_domain(S, P, atol) or not np.all(G.perp_widths(cell) > 2 * (G.diameter(np.asarray(P.positions, float)) + 2 * atol)):
            st.count("out_of_domain_skipped")
            return
        w = {"kind": case["kind"], "cell": np.round(cell, 4).tolist(), "dims": case["dims"], "n_atoms_unit_cell": len(S), "pattern_elements": pat["elements"]}
        base, _, _, exc = run_search(S, P, atol, seed=case["s"])
        if exc is not None or not base:
            st.count("big_supercell_base_unusable")
            return
        a_, b_, c_ = case["dims"]
        S6 = clone(S)
        S6.charges = np.arange(len(S), dtype=float)
        big = S6.replicate((a_, b_, c_))
        unit = [int(round(x)) for x in big.charges]
        for shifted in (False, True):
            if shifted:
                bc = np.array(big.cell, float)
                big.positions = G.wrap(bc, np.asarray(big.positions, float) + rng.uniform(-1, 1, 3).dot(bc))
            r, _, _, exc = run_search(big, P, atol, seed=case["s"])
            if exc is not None:
                ctx.fail("search on the %dx%dx%d supercell (%d atoms) raised %s" % (a_, b_, c_, len(big), type(exc).__name__), witness=w)
                return
            counts = {}
            for k in r:
                uk = tuple(sorted(unit[i] for i in k))
                counts[uk] = counts.get(uk, 0) + 1
            for uk, clear in base.items():
                if clear and len(set(uk)) == len(uk) and counts.get(uk, 0) != a_ * b_ * c_:
                    ctx.fail("supercell %dx%dx%d of %d atoms%s: unit-cell group %s is reported %d times (expected %d)" %
                             (a_, b_, c_, len(big), " shifted and wrapped" if shifted else "", uk, counts.get(uk, 0), a_ * b_ * c_), witness=w)
                    break
            st.count("big_supercell_searches")
            st.seen("big_supercell_atoms", len(big) // 1000)
        ctx.nontrivial([case["kind"], case["s"]])
        return
    if case["kind"] == "near_degenerate_hints":
        # an orientation atom that is only just off the axis (1e-4..1e-3 A) still defines the roll about the axis; on
        # EXACT copies (no noise to amplify) every such hint triple must give the matches of the unhinted search
        L = rng.uniform(2.4, 3.6)
        t = rng.uniform(0.9, L - 0.9)
        eps = 10 ** rng.uniform(-4, -3)
        pos = np.array([[0, 0, 0], [L, 0, 0], [t, eps, 0], [rng.uniform(0.3, L - 0.3), rng.uniform(1.0, 1.6), rng.uniform(-0.4, 0.4)],
                        [rng.uniform(0.3, L - 0.3), rng.uniform(-0.5, 0.5), rng.uniform(1.1, 1.7)]], float)
        pos = pos.dot(G.random_rotation(rng).T) + rng.uniform(-2, 2, 3)
        pat = {"cls": "near_collinear5", "elements": ["C", "N", "O", "S", "Cl"], "positions": pos, "chiral": True, "continuous_symmetry": None, "frame": "random"}
        atol = case["atol"]
        built = planted.build(rng, pat, case["cell"], atol, n_copies=3, crossings=[int(x) for x in rng.integers(0, 4, 3)], poses=["random"] * 3,
                              decoys=[], n_bystanders=4, n_distractors=2, perturb=0.0)
        S, P = built["atoms"], patterns.to_atoms(pat)
        w = {"kind": case["kind"], "cell": np.round(built["cell"], 5).tolist(), "atol": atol, "pattern_elements": pat["elements"],
             "pattern_positions": pos.tolist(), "orientation_atom_off_axis_by": eps, "planted": built["planted"],
             "structure_elements": elements_of(S), "structure_positions": np.asarray(S.positions, float).tolist()}
        FOUND_AS.clear()
        base, _, _, exc = run_search(S, P, atol, seed=case["s"])
        if exc is not None or not base:
            st.count("near_degenerate_base_unusable")
            return
        for hints in ((0, 1, 2), (1, 0, 2), (0, 2, 1), (2, 0, 1), (1, 2, 0), (2, 1, 0)):
            r, _, _, exc = run_search(S, P, atol, hints=hints, seed=case["s"])
            if exc is not None:
                ctx.fail("search with the hints %s (orientation atom %.2g A off the axis) raised %s" % (list(hints), eps, type(exc).__name__), witness=dict(w, hints=list(hints)))
                continue
            compare(ctx, st, base, r, "hints %s with an orientation atom %.2g A off the axis, exact copies" % (list(hints), eps), dict(w, hints=list(hints)),
                    hints=hints, atol=atol, found_as=dict(FOUND_AS))
            st.count("near_degenerate_hint_searches")
        st.count("near_degenerate_base_matches", len(base))
        ctx.nontrivial([case["kind"], case["s"]])
        return
    if case["kind"] == "pinned_hint_case":
        import json
        import os
        from mofun import Atoms
        d = json.load(open(os.path.join(os.path.dirname(os.path.abspath(__file__)), "data", "c03_hint_case.json")))
        S = Atoms(elements=d["elements"], positions=np.array(d["positions"]), cell=np.array(d["cell"]))
        P = Atoms(elements=d["pattern_elements"], positions=np.array(d["pattern_positions"]))
        FOUND_AS.clear()
        base, _, _, exc = run_search(S, P, d["atol"], seed=0)
        r, _, _, exc2 = run_search(S, P, d["atol"], hints=tuple(d["hints"]), seed=0)
        w = {"kind": "pinned_hint_case", "hints": d["hints"], "atol": d["atol"]}
        if exc is not None or exc2 is not None:
            ctx.fail("pinned hint case raised %r / %r" % (exc, exc2), witness=w)
            return
        compare(ctx, st, base, r, "hints %s (pinned witness)" % d["hints"], w, hints=tuple(d["hints"]), atol=d["atol"], found_as=dict(FOUND_AS))
        ctx.nontrivial(["pinned_hint_case"])
        return
    S = load_any(case["structure"])
    P = load_any(case["pattern_file"])
    atol = case["atol"]
    from vmon.contracts import c01_domain
    w = {"kind": "real", "structure": case["structure"], "pattern": case["pattern_file"], "atol": atol}
    if not c01_domain(S, P, atol):
        st.count("real_out_of_domain_skipped")
        st.seen("real_out_of_domain", case["structure"] + " + " + case["pattern_file"])
        return
    nclear = metamorphic(ctx, st, S, P, atol, rng, w, case["dims"], case["s"], n_hint=3, real=True)
    st.seen("real_pair", "%s + %s" % (case["structure"], case["pattern_file"]))
    if nclear:
        st.seen("real_pair_with_clear_matches", "%s + %s: %d" % (case["structure"], case["pattern_file"], nclear))
        ctx.nontrivial(["real", case["structure"], case["pattern_file"], case["s"]])
        ctx.sample({"kind": "real", "structure": case["structure"], "pattern": case["pattern_file"], "atol": atol, "clear_base_matches": nclear, "supercell": case["dims"]})


def requirements(stats, tier):
    need = []
    rel = stats.sets.get("relation", set())
    for r in ("shift+wrap", "permutation", "rigid-motion", "hints", "rng", "supercell"):
        if r not in rel:
            need.append("relation %s never checked" % r)
    if stats.nseen("hint_class") < 5:
        need.append("hint classes: %s" % sorted(stats.sets.get("hint_class", [])))
    if stats.get("hints_with_index_0") < 20:
        need.append("index-0 hints observed only %d times" % stats.get("hints_with_index_0"))
    if stats.nseen("real_pair_with_clear_matches") < 4:
        need.append("fewer than 4 real structure/pattern pairs with clear matches: %s" % sorted(stats.sets.get("real_pair_with_clear_matches", [])))
    if stats.get("base_clear_groups") < (300 if tier == "quick" else 20000):
        need.append("too few clear base matches: %d" % stats.get("base_clear_groups"))
    if stats.get("searches_for_a_pattern_with_an_element_the_structure_lacks") < (10 if tier == "quick" else 1000):
        need.append("patterns with an element the structure lacks: %d" % stats.get("searches_for_a_pattern_with_an_element_the_structure_lacks"))
    if stats.get("synthetic_structures_with_a_cell_of_whole_numbers") < (25 if tier == "quick" else 1500):
        need.append("structures whose cell is typed with whole numbers: %d" % stats.get("synthetic_structures_with_a_cell_of_whole_numbers"))
    if stats.get("strict_tolerance_cases_with_clear_matches") < (8 if tier == "quick" else 500):
        need.append("cases with a strict tolerance (1e-5, 1e-6) and clear matches: %d" % stats.get("strict_tolerance_cases_with_clear_matches"))
    if stats.get("big_supercell_searches") < (2 if tier == "quick" else 40):
        need.append("searches of supercells of thousands of atoms: %d" % stats.get("big_supercell_searches"))
    if stats.get("near_degenerate_hint_searches") < (150 if tier == "quick" else 12000):
        need.append("hint triples with a barely off-axis orientation atom on exact copies: %d searches" % stats.get("near_degenerate_hint_searches"))
    if stats.nseen("synthetic_cell_class") < len(planted.CELL_CLASSES):
        need.append("not all cell classes observed")
    return need
