"""C04 - replacement changes exactly the matched atoms and nothing else."""
import numpy as np

from vmon import events
from vmon.gen import patterns, planted, replcase
from vmon.oracle.util import elements_of, deep_diff, clone

PROPERTY = "C04"
RULE = ("Planted structures with non-overlapping copies (any pose, 0-3 faces crossed, all cell classes), bystanders near "
        "and far (one structure in three: up to three of them stored 0.02-0.4 A outside the box or exactly on a far face), random pre-existing labels/groups; replacement patterns {empty, smaller, equal, larger, far-reaching} "
        "x {with, without shared atoms}; fractions {0,0.1,0.25,1/3,0.5,0.9,1,random}; replace_all on/off; RNG "
        "schedules (seeded sample, stubbed first-k / last-k). The recorded history of each real call (find result, "
        "sample draw, extend and delete calls, deep snapshots of the three inputs) is checked offline, keyed by unique "
        "atom ids carried in the charges (the role of each matched atom is that of the planted correspondence when the order the search "
        "lists them in is, by more than 4 tolerances, no rigid image of the pattern): removed atoms = exactly the search-only atoms of the selected matches; "
        "inserted atoms = one per replacement-only atom per match with its element/charge/group; every other atom "
        "keeps position (bitwise), element, label, mass, charge, group and relative order; counts per element; number "
        "replaced is a nearest integer to f*found and equals the reported count; only found matches are replaced; the "
        "three inputs are unmodified. Non-trivial: at least one match replaced and at least one bystander present; "
        "distinct by seed.")
ASSUMPTIONS = ["cases in which the found matches share atoms are out of this property's quantifier (non-overlapping matches) and are skipped, counted",
               "atom ids are carried in the charges; mofun never rewrites the charge of an existing atom"]
ANCHOR_FUNCS = [("mofun/mofun.py", "replace_pattern_in_structure"), ("mofun/atoms.py", "find_unchanged_atom_pairs")]
REQUIRED_LINES = [("mofun/mofun.py", "replace_indices = random.sample("), ("mofun/mofun.py", "to_delete |= set([idx for match in match_indices for idx in match])"),
                  ("mofun/mofun.py", "new_structure.extend(new_atoms, offsets=offsets)\n")]
JOBS = {"quick": 4, "thorough": 16}
FRACTIONS = [1.0, 0.0, 0.1, 0.25, 1.0 / 3, 0.5, 0.9, 1.0, None, 1.0]


def cases(tier, seed):
    rng = np.random.default_rng([4, seed])
    n = 600 if tier == "quick" else 60000
    out = []
    for j in range(n):
        cell_cls = planted.CELL_CLASSES[j % len(planted.CELL_CLASSES)]
        f = FRACTIONS[(j // 2) % len(FRACTIONS)]
        out.append({"s": int(rng.integers(1 << 30)), "cell": cell_cls, "pattern": patterns.CLASSES[(j // 3) % len(patterns.CLASSES)],
                    "repl": replcase.REPL_KINDS[(j // 5) % len(replcase.REPL_KINDS)], "atol": [0.05, 0.2, 0.01][(j // 7) % 3],
                    "fraction": float(rng.uniform(0, 1)) if f is None else f, "replace_all": (j // 11) % 3 == 0,
                    "sample": ["real", "first", "last"][(j // 4) % 3]})
    return out


def build_case(rng, case, ncopies=None):
    pat = patterns.make(rng, case["pattern"])
    atol = case["atol"]
    minimal = case["cell"].endswith("minimal")
    k = 1 if minimal else (ncopies or int(rng.integers(1, 6)))
    built = planted.build(rng, pat, case["cell"], atol, n_copies=k, crossings=[int(x) for x in rng.integers(0, 4, k)],
                          poses=[planted.POSES[int(x)] for x in rng.integers(0, len(planted.POSES), k)], decoys=["near_miss"] if rng.integers(3) == 0 else [],
                          n_bystanders=int(rng.integers(1, 9)), n_distractors=int(rng.integers(0, 3)), min_sep=1.3)
    S = built["atoms"]
    # give the structure non-trivial labels / masses so that "keeps its label and mass" is observable
    S.atom_type_labels = ["L%d_%s" % (i, e) for i, e in enumerate(S.atom_type_elements)]
    rep = replcase.make_replacement(rng, pat, case["repl"])
    if case["s"] % 3 == 1 and not minimal:
        # bystanders stored a little outside the box, or exactly on a far face (a file written by a program that does not wrap:
        # fractional coordinates of -0.003, 1.0, 1.02): the same crystal; they are no part of any match and keep their place
        cell = np.array(S.cell, float)
        special = set(i for g in built["planted"] for i in g) | set(int(i) for _, g in built["decoy_groups"] for i in g)
        r2 = np.random.default_rng(case["s"] + 5)
        moved = 0
        for i in r2.permutation(len(S)):
            i = int(i)
            if i in special or moved >= 3:
                continue
            f = np.linalg.solve(cell.T, np.asarray(S.positions[i], float))
            k = int(r2.integers(3))
            delta = float(r2.uniform(0.02, 0.4)) / np.linalg.norm(cell[k])
            f[k] = [-delta, 1.0 + delta, 1.0][int(r2.integers(3))]
            p_new = f.dot(cell)
            others = np.delete(np.asarray(S.positions, float), i, axis=0)
            if planted.min_image_dist(cell, p_new, others) < 1.3:
                continue
            S.positions[i] = p_new
            moved += 1
        case["_outside"] = moved
    return pat, rep, built, S


def run_case(case, ctx):
    rng = np.random.default_rng(case["s"])
    st = ctx.stats
    pat, rep, built, S = build_case(rng, case)
    atol = case["atol"]
    P = patterns.to_atoms(pat)
    # one case in three: the replacement (and sometimes the structure) carries extra per-atom columns, as patterns loaded from CIF do
    rkw = {}
    if case["s"] % 3 == 0 and len(rep["elements"]):
        rkw = dict(extra_atom_labels=["_atom_site_occupancy", "_atom_site_vmon_r"], extra_atom_fields=[["1.0", "r%d" % i] for i in range(len(rep["elements"]))])
        if case["s"] % 2 == 0:
            S.extra_atom_labels = type(S.extra_atom_labels)(["_atom_site_occupancy"])
            S.extra_atom_fields = np.array([["0.5"] for _ in range(len(S))], dtype=object)
        st.count("replacements_bringing_new_extra_columns")
    R = replcase.rep_to_atoms(rep, **rkw)
    f = case["fraction"]
    if case["s"] % 5 in (1, 3):
        # the three inputs in another array flavour: flagged read-only (an input must not be written to anyway), positions in
        # column-major order, index arrays of another integer width
        from vmon.oracle.util import flavour
        fk = [None, 3, None, 2, None][case["s"] % 5]
        st.count("replacements_whose_inputs_are_read_only_or_column_major")
        st.seen("array_flavour_of_the_inputs", "%s/%s/%s" % (flavour(S, fk), flavour(P, fk), flavour(R, fk if len(R) else 0)))
    snaps = (clone(S), clone(P), clone(R))
    events.SCHEDULE["sample"] = case["sample"]
    # call forms: defaults left out where the case uses the default value; verbose output switched on now and then
    ckw = dict(return_num_matches=True)
    if not (f == 1.0 and case["s"] % 2):
        ckw["replace_fraction"] = f
    if not (atol == 0.05 and case["s"] % 4 < 2):
        ckw["atol"] = atol
    if case["replace_all"] or case["s"] % 3 == 0:
        ckw["replace_all"] = case["replace_all"]
    if case["s"] % 7 == 0:
        ckw["verbose"] = True
        st.count("replacements_with_verbose_output")
    st.seen("call_form", "".join(k[0] for k in sorted(ckw)))
    obs = replcase.observe_replace(S, P, R, case["s"], **ckw)
    w = {"case": {k: case[k] for k in ("cell", "pattern", "repl", "atol", "fraction", "replace_all", "sample")}, "n_atoms": len(S), "planted": built["planted"],
         "pattern_elements": pat["elements"], "replacement_elements": rep["elements"], "found": obs["found"], "selected": obs["selected"]}
    for msg in obs.get("plumbing") or []:
        ctx.fail(msg, key="option_plumbing", witness=w)
    # inputs unmodified (also when the call raised)
    for name, obj, snap in (("structure", S, snaps[0]), ("search pattern", P, snaps[1]), ("replacement pattern", R, snaps[2])):
        d = deep_diff(obj, snap)
        if d:
            ctx.fail("the %s passed in was modified: %s" % (name, d[:4]), witness=w)
    st.count("replace_calls")
    if obs["found"] is None:
        ctx.fail("no search was observed inside the replacement: %r" % (obs["exception"],), witness=w)
        return
    found = obs["found"]
    if replcase.matches_overlap(found):
        st.count("skipped_overlapping_matches")
        return
    if obs["exception"] is not None:
        ctx.fail("replacement of non-overlapping matches raised %s: %s" % (type(obs["exception"]).__name__, str(obs["exception"])[:200]), witness=w)
        return
    out = obs["result"]
    sel = obs["selected"]
    nfound = len(found)
    if obs.get("selection_inferred"):
        st.count("selections_read_off_the_result")
    if sel is None:
        # fraction < 1, the draw was not seen and the result does not tell which matches were taken (nothing is removed per match)
        st.count("not_judged.selection_unknown")
        return
    # number replaced: a nearest integer to f * found
    x = f * nfound
    if abs(len(sel) - x) > 0.5 + 1e-9:
        ctx.fail("%d of %d matches replaced for fraction %.6g (a nearest integer to %.4f expected)" % (len(sel), nfound, f, x), witness=w)
    if obs["num_matches"] != len(sel):
        ctx.fail("reported match count %r differs from the number of matches replaced %d" % (obs["num_matches"], len(sel)), witness=w)
    if len(set(sel)) != len(sel) or any(i < 0 or i >= nfound for i in sel):
        ctx.fail("selection %s is not a set of distinct found matches" % (sel,), witness=w)
        return
    if f >= 1.0 and sorted(sel) != list(range(nfound)):
        ctx.fail("fraction 1.0 but only %s of %d matches selected" % (sel, nfound), witness=w)
    # which atom of a match plays which role. The property speaks of "the atoms that occur only in the search pattern": that is
    # decided by where the atoms *are*, not by the order in which the search happened to list them. A found match over the atoms
    # of a planted copy whose listing differs from the planted correspondence is accepted as it is only if the pattern, re-listed
    # that way, is a proper rigid image of itself within a tolerance or two (a symmetry, exact or within the tolerance); if it
    # clearly is not (mirror twins exchanged: several tolerances off), the roles are those of the planted correspondence.
    ppos_ = np.asarray(pat["positions"], float)
    planted_by_set = {frozenset(g): g for g in built["planted"]}
    if len(ppos_) >= 3:
        found = [tuple(m) for m in found]
        for k, m in enumerate(list(found)):
            g = planted_by_set.get(frozenset(m))
            if g is None or list(g) == list(m) or len(set(m)) != len(m):
                continue
            pi = [g.index(a) for a in m]             # found slot j holds the atom the planted copy has in slot pi[j]
            if any(pat["elements"][pi[j]] != pat["elements"][j] for j in range(len(pi))):
                continue
            from vmon.oracle import geometry as _G
            mx = _G.kabsch(ppos_, ppos_[pi])[3]
            st.count("matches_listed_in_another_order_than_planted")
            if mx > 4.0 * atol + 0.05:
                st.count("roles_taken_from_the_planted_copy_because_the_listing_is_no_rigid_image")
                found[k] = tuple(g)
    shared = replcase.shared_pairs(pat, rep)          # replacement index -> search index
    shared_search = set() if case["replace_all"] else set(shared.values())
    shared_rep = set() if case["replace_all"] else set(shared.keys())
    in_ids = [float(c) for c in S.charges]
    exp_removed = set()
    for k in sel:
        for j, idx in enumerate(found[k]):
            if j not in shared_search:
                exp_removed.add(in_ids[idx])
    out_ids = [float(c) for c in out.charges]
    originals = [(i, c) for i, c in enumerate(out_ids) if c >= 999.0]
    inserted = [(i, c) for i, c in enumerate(out_ids) if c < 0]
    kept_ids = [c for _, c in originals]
    if len(set(kept_ids)) != len(kept_ids):
        ctx.fail("an original atom appears twice in the result", witness=w)
        return
    got_removed = set(in_ids) - set(kept_ids)
    if set(kept_ids) - set(in_ids):
        ctx.fail("the result contains atoms with ids that were never in the structure: %s" % sorted(set(kept_ids) - set(in_ids))[:4], witness=w)
    if got_removed != exp_removed:
        ctx.fail("removed atoms %s, expected exactly the search-only atoms of the replaced matches %s (wrongly removed %s, wrongly kept %s)" %
                 (_idx(got_removed, in_ids)[:8], _idx(exp_removed, in_ids)[:8], _idx(got_removed - exp_removed, in_ids)[:6], _idx(exp_removed - got_removed, in_ids)[:6]), witness=w)
    # relative order of the survivors
    if kept_ids != [c for c in in_ids if c in set(kept_ids)]:
        ctx.fail("the surviving atoms changed their relative order", witness=w)
    # survivors keep their data
    pos_in = {c: i for i, c in enumerate(in_ids)}
    in_match = set()
    for k in sel:
        in_match |= {in_ids[i] for i in found[k]}
    sel_el, s_lab, s_mass = elements_of(S), list(S.atom_type_labels), list(S.atom_type_masses)
    o_el, o_lab, o_mass = elements_of(out), list(out.atom_type_labels), list(out.atom_type_masses)
    nby = 0
    for i, c in originals:
        j = pos_in.get(c)
        if j is None:
            continue
        if not np.array_equal(out.positions[i], S.positions[j]):
            ctx.fail("atom %d (id %s, %s) moved from %s to %s" % (j, c, "retained atom of a replaced match" if c in in_match else "bystander", S.positions[j], out.positions[i]), witness=w)
            break
        if o_el[i] != sel_el[j] or int(out.groups[i]) != int(S.groups[j]):
            ctx.fail("atom %d (id %s): element/group changed from %s/%d to %s/%d" % (j, c, sel_el[j], S.groups[j], o_el[i], out.groups[i]), witness=w)
            break
        if c not in in_match:
            nby += 1
            t_o, t_i = int(out.atom_types[i]), int(S.atom_types[j])
            if str(o_lab[t_o]) != str(s_lab[t_i]) or abs(float(o_mass[t_o]) - float(s_mass[t_i])) > 1e-12:
                ctx.fail("bystander atom %d (id %s): label/mass changed from %s/%s to %s/%s" % (j, c, s_lab[t_i], s_mass[t_i], o_lab[t_o], o_mass[t_o]), witness=w)
                break
    # inserted atoms: one per replacement-only atom per replaced match
    rep_ids = [float(c) for c in R.charges]
    want = {}
    for k in sel:
        for ri, c in enumerate(rep_ids):
            if ri not in shared_rep:
                want[c] = want.get(c, 0) + 1
    got = {}
    for i, c in inserted:
        got[c] = got.get(c, 0) + 1
        ri = rep_ids.index(c) if c in rep_ids else None
        if ri is None:
            ctx.fail("inserted atom with unknown id %s" % c, witness=w)
            break
        if o_el[i] != rep["elements"][ri] or int(out.groups[i]) != int(R.groups[ri]):
            ctx.fail("inserted atom for replacement atom %d has element/group %s/%d, pattern says %s/%d" % (ri, o_el[i], out.groups[i], rep["elements"][ri], R.groups[ri]), witness=w)
            break
    if got != want:
        ctx.fail("inserted atoms per replacement atom %s, expected %s (one per replacement-only atom per replaced match)" % (_cnt(got, rep_ids), _cnt(want, rep_ids)), witness=w)
    # counts
    exp_n = len(S) - len(exp_removed) + sum(want.values())
    if len(out) != exp_n:
        ctx.fail("result has %d atoms, expected %d = %d - %d*%d + %d*%d" % (len(out), exp_n, len(S), len(sel), len(pat["elements"]) - len(shared_search), len(sel), len(rep["elements"]) - len(shared_rep)), witness=w)
    from collections import Counter
    ce = Counter(sel_el)
    for k in sel:
        for j, idx in enumerate(found[k]):
            if j not in shared_search:
                ce[pat["elements"][j]] -= 1
        for ri, e in enumerate(rep["elements"]):
            if ri not in shared_rep:
                ce[e] += 1
    if +ce != +Counter(o_el):
        ctx.fail("per-element counts %s, expected %s" % (dict(Counter(o_el)), dict(+ce)), witness=w)
    st.count("replacements_judged")
    st.count("matches_replaced", len(sel))
    st.seen("repl_kind", rep["kind"])
    st.seen("fraction_class", "0" if f == 0 else "1" if f >= 1 else "mid")
    if case.get("_outside") and len(inserted):
        st.count("replacements_that_insert_atoms_into_structures_with_bystanders_stored_outside_the_cell")
    st.seen("replace_all", case["replace_all"])
    st.seen("sample_schedule", case["sample"] if f < 1 else "n/a")
    st.seen("cell_class", case["cell"])
    if 0 < f < 1 and abs(x - round(x)) > 0.4:
        st.count("near_tie_fractions")
    if shared_search:
        st.count("with_shared_atoms")
    if len(sel) and nby:
        ctx.nontrivial(case["s"])
    if len(sel) and nby and len(S) <= 20:
        ctx.sample({"case": w["case"], "n_atoms": len(S), "found": found, "selected": sel, "search_elements": pat["elements"], "replacement_elements": rep["elements"],
                    "shared_pairs_replacement_to_search": {str(a): b for a, b in shared.items()}, "atoms_after": len(out)})


def _idx(ids, in_ids):
    return sorted(in_ids.index(c) for c in ids if c in in_ids)


def _cnt(d, rep_ids):
    return {rep_ids.index(c) if c in rep_ids else c: n for c, n in sorted(d.items())}


def requirements(stats, tier):
    need = []
    if stats.get("replacements_whose_inputs_are_read_only_or_column_major") < (100 if tier == "quick" else 10000):
        need.append("replacements whose inputs are flagged read-only or stored column-major: %d" % stats.get("replacements_whose_inputs_are_read_only_or_column_major"))
    if stats.get("replacements_judged") < (400 if tier == "quick" else 40000):
        need.append("too few replacements judged: %d" % stats.get("replacements_judged"))
    if stats.nseen("repl_kind") < len(replcase.REPL_KINDS) - 1:
        need.append("replacement kinds observed: %s" % sorted(stats.sets.get("repl_kind", [])))
    if stats.get("replacements_that_insert_atoms_into_structures_with_bystanders_stored_outside_the_cell") < (40 if tier == "quick" else 3000):
        need.append("replacements that insert atoms into structures with bystanders stored outside the cell: %d" % stats.get("replacements_that_insert_atoms_into_structures_with_bystanders_stored_outside_the_cell"))
    if stats.nseen("fraction_class") < 3 or stats.nseen("replace_all") < 2:
        need.append("fractions / replace_all not covered")
    for s in ("first", "last", "real"):
        if not stats.has("sample_schedule", s):
            need.append("sample schedule %s not observed" % s)
    if stats.get("replacements_bringing_new_extra_columns") < 50:
        need.append("replacements whose pattern brings new extra columns: %d" % stats.get("replacements_bringing_new_extra_columns"))
    if stats.get("event.sample") + stats.get("selections_read_off_the_result") < 50:
        need.append("partial selections observed only %d times (random.sample inside mofun) + %d times (read off the result)" % (stats.get("event.sample"), stats.get("selections_read_off_the_result")))
    if stats.nseen("cell_class") < len(planted.CELL_CLASSES):
        need.append("not all cell classes observed")
    return need
