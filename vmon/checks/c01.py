"""C01 - every reported match is a genuine rigid-motion image of the pattern."""
import numpy as np

from vmon import events
from vmon.gen import inplace, patterns, planted

PROPERTY = "C01"
RULE = ("The C01 postcondition (icontract `ensure` on the real find_pattern_in_structure: tuple shape, index range, "
        "distinctness, elements, returned positions = stored positions + lattice vectors, returned rotation carries "
        "the pattern onto the returned positions within atol (+ numpy's rtol) after the L-infinity-optimal "
        "translation, and - not trusting the returned rotation - the proper Kabsch fit has RMS <= sqrt(3)*tolerance) is "
        "evaluated on every search of a hostile workload: planted structures as in C02 with decoys aimed at the "
        "rotation re-check (mirror images of chiral patterns, atoms displaced tangentially by 2-2.8*atol, near "
        "misses), every valid hint class incl. index 0, tolerances {0.01,0.05,0.2,0.5}, RNG schedules, searches made "
        "directly (both return shapes), through replace_pattern_in_structure, and again on the same object after it was "
        "edited where it is (translate()+wrap, one atom moved, two atoms' positions swapped, one atom retyped - array "
        "identities kept), and once more after a third of the atoms were moved out of the box by lattice "
        "vectors (atoms stored un-wrapped; only what C01 states about reported matches is judged there). Non-trivial: the case produced at "
        "least one reported match and contained at least one decoy or boundary-straddling copy; distinct by seed.")
ASSUMPTIONS = ["domain guard per call: cell present, atoms inside the cell, perpendicular widths > diameter + 2*atol; calls outside are counted, not judged",
               "the bound is the code's own acceptance criterion (np.allclose: atol + 1e-5*|x|) relaxed to the optimal translation"]
ANCHOR_FUNCS = [("mofun/mofun.py", "find_pattern_in_structure"), ("mofun/helpers.py", "quaternion_from_two_vectors"),
                ("mofun/helpers.py", "quaternion_from_two_vectors_around_axis"), ("mofun/helpers.py", "position_index_farthest_from_axis")]
REQUIRED_LINES = [("mofun/helpers.py", "axis = np.cross(v1, np.random.random(3))"), ("mofun/helpers.py", "angle *= -1"),
                  ("mofun/mofun.py", "WARNING: Search pattern was matched, but there is no possible way"),
                  ("mofun/mofun.py", "axisp2_idx = np.argmax(p_ss[axisp1_idx, :])")]
JOBS = {"quick": 4, "thorough": 16}
ATOLS = [0.01, 0.05, 0.2, 0.5]


def cases(tier, seed):
    rng = np.random.default_rng([1, seed])
    n = 600 if tier == "quick" else 40000
    out = []
    for j in range(n):
        cell_cls = planted.CELL_CLASSES[j % len(planted.CELL_CLASSES)]
        minimal = cell_cls.endswith("minimal")
        ncopies = 1 if minimal else int(rng.integers(1, 4))
        out.append({"s": int(rng.integers(1 << 30)), "cell": cell_cls, "pattern": (patterns.CLASSES + ["close_pair"])[(j // 3) % (len(patterns.CLASSES) + 1)],
                    "atol": ATOLS[(j // 5) % 4], "crossings": [int(x) for x in rng.integers(0, 4, ncopies)],
                    "poses": [planted.POSES[int(x)] for x in rng.integers(0, len(planted.POSES), ncopies)],
                    "decoys": [] if minimal else ["mirror", "tangential", "tangential", "near_miss"][:int(rng.integers(1, 5))],
                    "schedule": ["real", "first", "last", "rr"][(j // 2) % 4]})
    # a pattern as long as half a cell edge: the partner atom is reached through two periodic images at the same distance, both
    # are genuine placements of the same atom group - whichever is reported, its positions and its rotation must belong together
    for j in range(40 if tier == "quick" else 3000):
        out.append({"kind": "half_cell", "s": int(rng.integers(1 << 30)), "cell": ["ortho", "tri"][j % 2], "atol": ATOLS[j % 4], "n": [2, 3, 4][j % 3]})
    # tolerances of a few 1e-5 A (a request for "the same site, to the printed precision"), near the origin, beside a copy in which one
    # atom is lifted out of the pattern's plane by several times what the search may accept: the pair distances change in second
    # order only (far below the tolerance), so the candidate reaches the final placement check and must be turned away there
    for j in range(30 if tier == "quick" else 2000):
        out.append({"kind": "tight", "s": int(rng.integers(1 << 30)), "atol": [1e-5, 2e-5, 3e-5][j % 3]})
    return out


def run_tight(case, ctx):
    import mofun
    from mofun import Atoms
    from vmon.oracle import geometry as G
    rng = np.random.default_rng(case["s"])
    st = ctx.stats
    atol = case["atol"]
    els = [["C", "N", "O", "H"], ["Si", "O", "N", "F"], ["C", "O", "Cl", "H"]][case["s"] % 3]
    base = np.array([[0.0, 0.0, 0.0], [1.35, 0.0, 0.0], [0.25, 1.25, 0.0], [-0.95, 0.75, 0.0]]) + np.pad(rng.uniform(-0.1, 0.1, (4, 2)), ((0, 0), (0, 1)))
    base[0] = 0.0
    L = 9.0
    cell = np.diag([L, L + 0.5, L + 1.0])
    eff = atol + 1e-5 * (L + 1.0)            # what numpy.allclose(atol=...) lets through at coordinates of this size
    lift = float(rng.uniform(2.4, 4.2)) * eff
    j = int(rng.integers(1, 4))
    decoy = base.copy()
    decoy[j, 2] += lift
    R1, R2 = G.random_rotation(rng), G.random_rotation(rng)
    c1 = rng.uniform(2.0, 2.6, 3)
    c2 = c1 + np.array([4.2, 4.4, 4.6])
    pos = np.vstack([(base - base.mean(0)).dot(R1.T) + c1, (decoy - decoy.mean(0)).dot(R2.T) + c2])
    S = Atoms(elements=els + els, positions=pos, cell=cell)
    P = Atoms(elements=els, positions=base + rng.uniform(-1, 1, 3))
    events.seed_all(case["s"])
    try:
        idx, xs, qs = mofun.find_pattern_in_structure(S, P, atol=atol, return_positions_and_quats=True)
    except Exception as e:
        if type(e).__name__ == "PostBroken":
            raise
        st.count("searches_that_raised.%s" % type(e).__name__)
        return
    st.count("direct_searches")
    st.count("searches_with_a_tolerance_of_a_few_1e-5")
    st.count("lifted_copies_several_tolerances_off_whose_pair_distances_fit")
    if any(sorted(int(i) for i in m) == [4, 5, 6, 7] for m in idx):
        st.count("lifted_copies_reported")     # (the postcondition has judged it: the rotation cannot carry the pattern onto it)
    ctx.nontrivial(["tight", case["s"]])


def run_half_cell(case, ctx):
    import mofun
    from mofun import Atoms
    from vmon.oracle import geometry as G
    rng = np.random.default_rng(case["s"])
    st = ctx.stats
    atol = case["atol"]
    ell = float(rng.uniform(2.2, 4.0))
    # pattern: X - Y at distance ell along x, further atoms (if any) close to X off the axis
    ppos = [[0.0, 0.0, 0.0], [ell, 0.0, 0.0]] + [[float(rng.uniform(0.3, 0.9)), float(rng.uniform(0.8, 1.3)) * (-1) ** k, float(rng.uniform(-0.6, 0.6))] for k in range(case["n"] - 2)]
    pels = ["C", "N", "O", "S"][:case["n"]]
    a = 2 * ell + float(rng.uniform(-0.4, 0.4)) * atol
    b, c = rng.uniform(ell + 2 * atol + 2.5, ell + 2 * atol + 6.0, 2)
    cell = np.diag([a, b, c])
    if case["cell"] == "tri":
        cell[1, 0], cell[2, 0], cell[2, 1] = rng.uniform(-0.3, 0.3) * a, rng.uniform(-0.3, 0.3) * a, rng.uniform(-0.3, 0.3) * b
    if not np.all(G.perp_widths(cell) > G.diameter(np.array(ppos)) + 2 * atol + 0.2):
        st.count("half_cell_cases_out_of_domain")
        return
    spin = G.rotation_about(np.array([1.0, 0.0, 0.0]), float(rng.uniform(0, 2 * np.pi)))
    origin = rng.uniform(0.1, 0.9, 3).dot(cell)
    pos = [np.array(p).dot(spin.T) + origin for p in ppos]
    els = list(pels)
    for _ in range(int(rng.integers(1, 5))):
        for _try in range(50):
            q = rng.uniform(0, 1, 3).dot(cell)
            if G.equal_mod_lattice(cell, np.array(pos), q[None, :]).min() > ell + 3 * atol + 0.6:
                pos.append(q)
                els.append("Ar")
                break
    pos = G.wrap(cell, np.array(pos))
    order = rng.permutation(len(els))
    S = Atoms(elements=[els[i] for i in order], positions=pos[order], cell=cell)
    P = Atoms(elements=pels, positions=np.array(ppos) + rng.uniform(-1, 1, 3))
    n = 0
    for k in range(6):
        events.seed_all(case["s"] + k)
        try:
            idx, xs, qs = mofun.find_pattern_in_structure(S, P, atol=atol, return_positions_and_quats=True)
            n += len(idx)
        except Exception as e:
            if type(e).__name__ == "PostBroken":
                raise
            st.count("searches_that_raised.%s" % type(e).__name__)
        st.count("direct_searches")
    st.count("searches_for_a_pattern_half_a_cell_edge_long", 6)
    st.count("matches_of_a_pattern_half_a_cell_edge_long", n)
    if n:
        ctx.nontrivial(["half_cell", case["s"]])


def run_case(case, ctx):
    import mofun
    if case.get("kind") == "half_cell":
        return run_half_cell(case, ctx)
    if case.get("kind") == "tight":
        return run_tight(case, ctx)
    rng = np.random.default_rng(case["s"])
    st = ctx.stats
    pat = patterns.make(rng, case["pattern"])
    atol = case["atol"]
    retabled = case["s"] % 5 == 4 and len(set(pat["elements"])) >= 2
    built = planted.build(rng, pat, case["cell"], atol, n_copies=len(case["crossings"]), crossings=case["crossings"], poses=case["poses"],
                          decoys=list(case["decoys"]) + (["first_element_other"] if retabled and not case["cell"].endswith("minimal") else []),
                          n_bystanders=int(rng.integers(0, 6)), n_distractors=int(rng.integers(0, 4)))
    atoms = built["atoms"]
    patoms = patterns.to_atoms(pat, unused_type=(case["s"] % 5 == 2), table_order="reversed" if retabled else None)
    if retabled:
        st.count("searches_with_a_pattern_whose_first_atom_is_not_of_the_first_type")
        if any(d == "first_element_other" for d, _ in built["decoy_groups"]):
            st.count("searches_beside_a_copy_whose_first_atom_is_another_element_of_the_pattern")
    nmatches = 0
    hintsets = patterns.valid_hint_sets(pat, rng, k=3)
    for hi, hints in enumerate(hintsets):
        events.seed_all(case["s"] + hi)
        events.SCHEDULE["choice"] = case["schedule"]
        events.SCHEDULE["nprandom"] = "near_parallel" if case["schedule"] in ("first", "rr") else "real"
        before = ctx.stats.get("dummy")
        try:
            if hi % 2 == 0:
                res = mofun.find_pattern_in_structure(atoms, patoms, axisp1_idx=hints[0], axisp2_idx=hints[1], opoint_idx=hints[2], atol=atol)
                nmatches += len(res)
            else:
                idx, pos, quats = mofun.find_pattern_in_structure(atoms, patoms, axisp1_idx=hints[0], axisp2_idx=hints[1], opoint_idx=hints[2], atol=atol,
                                                                  return_positions_and_quats=True)
                nmatches += len(idx)
                if len(idx) != len(pos) or len(idx) != len(quats):
                    ctx.fail("positions/rotations lists have other lengths than the match list", witness={"hints": list(hints)})
        except Exception as e:
            if type(e).__name__ == "PostBroken":
                raise
            # a search that raises reports no match, so C01 has nothing to judge; that valid hints must not change the
            # result (and hence must not raise) is C03's statement and is decided there
            st.count("searches_that_raised.%s" % type(e).__name__)
        st.count("direct_searches")
        st.seen("hint_class", "%s%s%s" % ("a" if hints[0] is not None else "-", "b" if hints[1] is not None else "-", "o" if hints[2] is not None else "-"))
        if 0 in hints[:2]:
            st.count("hints_with_index_0")
    # every option given by position, in the documented order; the result is judged here against the tolerance the caller
    # gave (the 7th argument), whatever name the function's own signature binds it to
    if case["s"] % 3 == 1 and hintsets:
        hints = hintsets[-1]
        events.seed_all(case["s"] + 9)
        try:
            r = mofun.find_pattern_in_structure(atoms, patoms, hints[0], hints[1], hints[2], True, atol, False)
        except Exception as e:
            if type(e).__name__ == "PostBroken":
                raise
            r = None
            st.count("searches_that_raised.%s" % type(e).__name__)
        st.count("direct_searches")
        if r is not None:
            st.count("searches_with_every_option_by_position")
            from vmon import contracts
            try:
                if contracts.c01_domain(atoms, patoms, atol, need_inside=False):
                    for clause, msg, w in contracts.c01_clauses(atoms, patoms, atol, r):
                        ctx.fail("positional call (structure, pattern, %r, %r, %r, True, %r, False): %s" % (hints[0], hints[1], hints[2], atol, msg), key="positional." + clause, witness=w)
                    nmatches += len(r[0])
            except Exception as e:
                ctx.fail("positional call with return_positions_and_quats=True returned something that is not (matches, positions, rotations): %s: %s" % (type(e).__name__, str(e)[:120]),
                         key="positional.uninspectable")
    # the tightest request there is: a tolerance of exactly zero (0.0 or the integer 0) - "exact copies only". Whatever is
    # reported passes through the same postcondition, which is then evaluated with the tolerance 0 it was given.
    if case["s"] % 4 == 3:
        events.seed_all(case["s"] + 13)
        try:
            idx, pos, quats = mofun.find_pattern_in_structure(atoms, patoms, atol=[0.0, 0][case["s"] % 8 // 4], return_positions_and_quats=True)
            st.count("searches_with_zero_tolerance")
            st.count("matches_at_zero_tolerance", len(idx))
        except Exception as e:
            if type(e).__name__ == "PostBroken":
                raise
            st.count("searches_that_raised.%s" % type(e).__name__)
        st.count("direct_searches")
    # the same search as made by the replacement routine (replacement = the pattern itself)
    try:
        events.seed_all(case["s"])
        n_log = len(events.LOG)
        mofun.replace_pattern_in_structure(atoms, patoms, patoms, atol=atol, ignore_atoms_should_not_be_deleted_twice=True)
        # (a replacement routine that does not go through the public search function makes no search this check could judge)
        if any(e["ev"] == "find.call" for e in events.LOG[n_log:]):
            st.count("searches_through_replace")
        else:
            st.count("replacements_that_did_not_call_the_public_search")
    except Exception as e:
        if type(e).__name__ == "PostBroken":
            raise
        st.count("replace_raised.%s" % type(e).__name__)
    # the same object searched again after it was edited where it is: the postcondition judges the second search
    # against the state it was made on (returned positions = stored positions + lattice vector, elements, rigid image)
    for rep in range(2):
        desc = inplace.edit_structure(rng, atoms)
        events.seed_all(case["s"] + 50 + rep)
        try:
            if rep == 0:
                idx, pos, quats = mofun.find_pattern_in_structure(atoms, patoms, atol=atol, return_positions_and_quats=True)
            else:
                idx = mofun.find_pattern_in_structure(atoms, patoms, atol=atol)
            nmatches += len(idx)
            st.count("matches_after_inplace_edit", len(idx))
        except Exception as e:
            if type(e).__name__ == "PostBroken":
                raise
            st.count("searches_that_raised.%s" % type(e).__name__)
        st.count("direct_searches")
        st.count("searches_after_inplace_edit")
        st.seen("inplace_edit", desc[0])
    # atoms stored un-wrapped: some atoms (copies' atoms and others) are moved by lattice vectors out of the box, the crystal
    # is the same; whatever is reported must still be distinct atoms of the right elements at lattice images
    if case["s"] % 2 == 0:
        cellm = np.array(atoms.cell, float)
        k = max(1, len(atoms) // 3)
        for i in rng.choice(len(atoms), size=k, replace=False):
            atoms.positions[int(i)] += rng.integers(-1, 2, 3).astype(float).dot(cellm)
        events.seed_all(case["s"] + 77)
        for shape in (0, 1):
            try:
                r = mofun.find_pattern_in_structure(atoms, patoms, atol=atol, return_positions_and_quats=bool(shape))
                st.count("matches_in_unwrapped_structures", len(r[0]) if shape else len(r))
            except Exception as e:
                if type(e).__name__ == "PostBroken":
                    raise
                st.count("searches_that_raised.%s" % type(e).__name__)
            st.count("direct_searches")
            st.count("searches_of_unwrapped_structures")
    st.seen("pattern_frame", pat.get("frame", "random"))
    st.seen("pattern_class", pat["cls"])
    st.seen("cell_class", case["cell"])
    for d, _ in built["decoy_groups"]:
        st.count("decoys_planted.%s" % d)
    if nmatches:
        st.count("cases_with_matches")
    if nmatches and (built["decoy_groups"] or any(c > 0 for c in built["crossings"])):
        ctx.nontrivial(case["s"])
    if nmatches and built["decoy_groups"] and len(atoms) <= 18:
        ctx.sample({"case": {k: case[k] for k in ("cell", "pattern", "atol", "crossings", "poses", "decoys", "schedule")}, "n_atoms": len(atoms),
                    "hint_sets": [list(h) for h in hintsets], "matches_reported_over_all_searches": nmatches})


def requirements(stats, tier):
    need = []
    if stats.get("searches_with_a_tolerance_of_a_few_1e-5") < (25 if tier == "quick" else 1500):
        need.append("searches with a tolerance of a few 1e-5: %d" % stats.get("searches_with_a_tolerance_of_a_few_1e-5"))
    ev = stats.get("contract_eval.C01.in_domain")
    if ev < (1500 if tier == "quick" else 100000):
        need.append("postcondition evaluated in-domain only %d times" % ev)
    if stats.get("contract_eval.C01.matches_checked") < (2500 if tier == "quick" else 160000):
        need.append("only %d matches passed through the witness check" % stats.get("contract_eval.C01.matches_checked"))
    if stats.get("contract_eval.C01.find_post") < stats.get("direct_searches") + stats.get("searches_through_replace"):
        need.append("fewer postcondition evaluations than searches: a binding bypasses the contract")
    if stats.get("searches_beside_a_copy_whose_first_atom_is_another_element_of_the_pattern") < (30 if tier == "quick" else 2000):
        need.append("searches with a re-tabled pattern beside a look-alike with another first element: %d" % stats.get("searches_beside_a_copy_whose_first_atom_is_another_element_of_the_pattern"))
    if stats.get("mofun_warning.no_possible_rotation") < 10:
        need.append("the chirality/rotation re-check rejected fewer than 10 candidates: decoys did not reach it")
    if stats.get("direct_searches") and sum(v for k, v in stats.counts.items() if k.startswith("searches_that_raised.")) > 0.2 * stats.get("direct_searches"):
        need.append("more than 20% of the searches raised: too little was observed")
    if stats.get("matches_after_inplace_edit") < (100 if tier == "quick" else 5000) or stats.nseen("inplace_edit") < 4:
        need.append("searches of an object edited in place since its last search: %d matches, edit kinds %s" %
                    (stats.get("matches_after_inplace_edit"), sorted(stats.sets.get("inplace_edit", []))))
    if stats.get("matches_in_unwrapped_structures") < (100 if tier == "quick" else 5000):
        need.append("matches reported for structures with atoms stored outside the cell: %d" % stats.get("matches_in_unwrapped_structures"))
    if stats.get("matches_of_a_pattern_half_a_cell_edge_long") < (100 if tier == "quick" else 8000):
        need.append("matches of a pattern half a cell edge long (partner atom reached through two images): %d" % stats.get("matches_of_a_pattern_half_a_cell_edge_long"))
    if stats.get("searches_with_zero_tolerance") < (50 if tier == "quick" else 5000):
        need.append("searches with a tolerance of exactly zero: %d" % stats.get("searches_with_zero_tolerance"))
    if stats.get("searches_with_every_option_by_position") < 50:
        need.append("searches with every option given by position: %d" % stats.get("searches_with_every_option_by_position"))
    if stats.nseen("hint_class") < 5:
        need.append("hint classes observed: %s" % sorted(stats.sets.get("hint_class", [])))
    if stats.get("hints_with_index_0") < 20:
        need.append("index-0 hints observed %d times" % stats.get("hints_with_index_0"))
    if stats.nseen("pattern_class") < len(patterns.CLASSES) + 1 or stats.nseen("cell_class") < len(planted.CELL_CLASSES):
        need.append("not all pattern / cell classes observed")
    return need
