"""C13 - LAMMPS data files round-trip and mean what the structure says."""
import io

import numpy as np

from vmon.gen import atomsgen
from vmon.oracle import lmpread

PROPERTY = "C13"
RULE = ("Generated structures: orthorhombic or LAMMPS-tilted cell (all tilt-sign combinations), 1-14 atoms, 1-4 types "
        "per kind (every sixth case: 12-39 atoms and 10-30 types per kind, i.e. two-digit type ids), coefficient tables present/absent per kind, coefficient strings of 1-5 tokens with zero or one "
        "trailing comment, negative charges and coordinates (atoms also outside the box), both atom styles. Each "
        "file written by the real save_lmpdat is parsed by the harness's independent reader (and ASE for cell and "
        "positions) and compared field by field with the structure; then read back by the real load_lmpdat and "
        "compared; then save(load(save(b))) must equal save(b) byte for byte. History: the object just written is edited (labels "
        "renamed by assignment or in place, positions/charges/types/cell/terms changed in place, sizes unchanged) and "
        "written again; the second file is judged against the object's state at that time. Non-trivial: tilted cell or at least "
        "two term kinds with tables; distinct by generator seed.")
ASSUMPTIONS = ["only files written by mofun are read back (the property is about mofun's own files)",
               "type labels contain no '#' and no whitespace; masses are real element masses so element guessing (C14) is not in play"]
ANCHOR_FUNCS = [("mofun/atoms.py", "Atoms.save_lmpdat"), ("mofun/atoms.py", "Atoms.load_lmpdat")]
REQUIRED_LINES = [("mofun/atoms.py", 'f.write(" %10.6f %10.6f %10.6f xy xz yz\\n"'),
                  ("mofun/atoms.py", "cell = np.array([[cellx, 0, 0], [cellxy, celly, 0], [cellxz, cellyz, cellz]])"),
                  ("mofun/atoms.py", 'if atom_format == "atomic":')]
JOBS = {"quick": 4, "thorough": 16}
SEC = {"bond": "Bonds", "angle": "Angles", "dihedral": "Dihedrals", "improper": "Impropers"}
CSEC = {"bond": "Bond Coeffs", "angle": "Angle Coeffs", "dihedral": "Dihedral Coeffs", "improper": "Improper Coeffs"}
HALF = 0.5e-6 + 1e-9


def cases(tier, seed):
    rng = np.random.default_rng([13, seed])
    n = 240 if tier == "quick" else 120000
    out = []
    for j in range(n):
        out.append({"s": int(rng.integers(1 << 30)), "style": ["full", "atomic"][j % 2], "cell": ["ortho", "tri"][(j // 2) % 2],
                    "tilt_signs": [(j // 4) % 2, (j // 8) % 2, (j // 16) % 2], "via": ["method", "save_load_path", "save_load_fileobj"][j % 3], "many_types": j % 6 == 5})
    # structures of one to a few thousand atoms (four-digit atom ids, more atoms than any block size a writer may use)
    for j in range(4 if tier == "quick" else 200):
        out.append({"s": int(rng.integers(1 << 30)), "style": ["full", "atomic"][j % 2], "cell": ["ortho", "tri"][(j // 2) % 2], "tilt_signs": [1, 0, 1],
                    "via": "method", "many_types": False, "many_atoms": [1300, 2050, 1001, 3100][j % 4] + int(rng.integers(0, 60))})
    return out


def coeff_string(rng, tag):
    ntok = int(rng.integers(1, 6))
    toks = []
    for i in range(ntok):
        r = int(rng.integers(4))
        toks.append(["harmonic", "%.4f" % rng.uniform(-50, 400), "%d" % rng.integers(-3, 9), "%s%d" % (tag, i)][r])
    s = " ".join(toks) if rng.integers(2) else "  ".join(toks)
    r = int(rng.integers(12))
    if r < 6:
        s += ["   # ", " # ", "  #"][int(rng.integers(3))] + " ".join(["%s_%d" % (tag, k) for k in range(int(rng.integers(1, 4)))])
    elif r == 6:
        s += "   #"          # a comment sign with nothing behind it is still part of what was stored
    return s


def build(rng, case):
    from mofun import Atoms
    masses = atomsgen.real_masses()
    many = case.get("many_types", False)       # type ids with two digits: 10..30 types per kind
    n = int(rng.integers(1, 15)) if not many else int(rng.integers(12, 40))
    if case.get("many_atoms"):
        n = int(case["many_atoms"])
    nt = int(rng.integers(1, 5)) if not many else int(rng.integers(10, 31))
    pool = atomsgen.ELEMENT_POOL if not many else [e for e in masses if e not in ("Cm", "Bk")][:60]
    els = [pool[int(i)] for i in rng.choice(len(pool), size=nt, replace=bool(rng.integers(3) == 0))]   # one in three: types share elements
    a, b, c = rng.uniform(6, 20, 3)
    if case["cell"] == "ortho":
        cell = np.diag([a, b, c])
    else:
        sg = [1 if x else -1 for x in case["tilt_signs"]]
        cell = np.array([[a, 0, 0], [sg[0] * rng.uniform(0.05, 0.45) * a, b, 0], [sg[1] * rng.uniform(0.05, 0.45) * a, sg[2] * rng.uniform(0.05, 0.45) * b, c]])
        if rng.integers(6) == 0:
            # tilts just above the printed precision: still a tilted cell, the file must say so
            tiny = float(rng.choice([3e-6, 5e-5, 4e-4]))
            cell[1, 0], cell[2, 0], cell[2, 1] = sg[0] * tiny, sg[1] * tiny * float(rng.integers(0, 2)), sg[2] * tiny * float(rng.integers(0, 2))
        zero = int(rng.integers(0, 8))          # every tilt pattern incl. exactly one or two tilt factors equal to zero
        if zero in (1, 2, 3):
            cell[[1, 2, 2][zero - 1], [0, 0, 1][zero - 1]] = 0.0
        elif zero == 4:
            cell[1, 0] = cell[2, 0] = 0.0
        elif zero == 5:
            cell[2, 0] = cell[2, 1] = 0.0
    if rng.integers(8) == 0:
        # a very large box (or a structure far from the origin): coordinates beyond +-1000 need more characters than usual
        cell = cell * float(rng.choice([40.0, 150.0]))
        case["_wide_coordinates"] = True
    pos = rng.uniform(-0.3, 1.3, (n, 3)).dot(cell)
    if rng.integers(3) == 0:
        pos = np.round(pos, 3)
    kw = dict(atom_types=[int(x) for x in rng.integers(0, nt, n)], positions=pos, cell=cell, atom_type_elements=els,
              atom_type_masses=[masses[e] for e in els], atom_type_labels=["%s_%d" % (e, t) if rng.integers(2) else e for t, e in enumerate(els)],
              charges=np.round(rng.uniform(-2, 2, n) * (1 if not many else 12), int(rng.integers(2, 9))), groups=[int(x) for x in rng.integers(0 if rng.integers(5) else -1, 4 if not many else 25, n)])    # one structure in five has atoms of group -1 (LAMMPS molecule id 0: "no molecule")
    if rng.integers(10) == 0:
        kw["atom_type_labels"][int(rng.integers(nt))] = ""        # a type the user left unlabelled
        case["_empty_label"] = True
    if rng.integers(2):
        kw["pair_coeffs"] = [coeff_string(rng, "p%d" % t) for t in range(nt)]
    for kind in atomsgen.KNAMES:
        terms = atomsgen.random_terms(rng, n, atomsgen.WIDTH[kind], int(rng.integers(0, 6)) if not many else int(rng.integers(10, 40)))
        if not terms:
            if rng.integers(4) == 0:
                # a coefficient table for a kind of term the structure does not (or no longer) contain
                kw["%s_type_coeffs" % kind] = [coeff_string(rng, "%s%d" % (kind[0], t)) for t in range(int(rng.integers(1, 4)))]
                case["_table_without_terms"] = True
            continue
        k = int(rng.integers(1, 5)) if not many else int(rng.integers(10, 31))
        kw[atomsgen.ARR[kind]] = terms
        kw["%s_types" % kind] = [int(x) for x in rng.integers(0, k, len(terms))]
        if rng.integers(3) > 0:
            kw["%s_type_coeffs" % kind] = [coeff_string(rng, "%s%d" % (kind[0], t)) for t in range(k)]
    if case["s"] % 5 == 2 and not case.get("_empty_label"):
        # united-atom / coarse-grained types: a mass that is no element's (CH3 15.035, CH2 14.027, a bead of 72) - every type labelled.
        # Elements cannot be inferred then (documented: type numbers instead); labels, masses and everything else must still survive
        t = int(rng.integers(nt))
        kw["atom_type_masses"] = list(kw["atom_type_masses"])
        kw["atom_type_masses"][t] = [15.035, 13.5, 72.0, 0.5][int(rng.integers(4))]
        kw["atom_type_labels"] = [l if l else "T%d" % i for i, l in enumerate(kw["atom_type_labels"])]
        kw["atom_type_labels"][t] = ["CH3_sp3", "CH2", "BEAD", "Dq"][int(rng.integers(4))]
        case["_nonatomic"] = True
    a = Atoms(**kw)
    if case["s"] % 6 == 4:
        from vmon.oracle.util import non_ascii
        non_ascii(a)
        case["_non_ascii"] = True
    return a


KEYWORD_COMMENTS = {"Masses": "  # g/mol", "Atoms": " # %s", "Pair Coeffs": " # lj/cut", "Bond Coeffs": " # harmonic", "Angle Coeffs": " # harmonic",
                    "Dihedral Coeffs": "   # harmonic", "Improper Coeffs": " # harmonic", "Bonds": " # i j", "Angles": " #", "Dihedrals": "  # i j k l", "Impropers": " # i j k l"}


def split_coeff(s):
    s = str(s)
    if "#" in s:
        body, comment = s.split("#", 1)
        return body.split(), comment.strip()
    return s.split(), None


def compare_file_with_atoms(d, a, style, fail):
    """the independently parsed file must state exactly the content of `a`"""
    for msg in lmpread.consistency_problems(d):
        fail("file is not a consistent LAMMPS data file: %s" % msg, "consistency")
    n = len(a)
    cell = np.array(a.cell, float)
    for ax, i in (("x", 0), ("y", 1), ("z", 2)):
        lo, hi = d["box"].get(ax, (None, None))
        if lo is None or abs(lo) > HALF or abs(hi - cell[i, i]) > HALF:
            fail("box %slo %shi = %s, structure says 0 .. %.6f" % (ax, ax, (lo, hi), cell[i, i]), "box")
    tilt = (cell[1, 0], cell[2, 0], cell[2, 1])
    if any(abs(t) > 0 for t in tilt):
        if d["tilt"] is None:
            fail("tilted cell but no 'xy xz yz' line", "tilt")
        elif any(abs(x - y) > HALF for x, y in zip(d["tilt"], tilt)):
            fail("tilt factors %s, structure says (xy,xz,yz)=%s" % (d["tilt"], tuple(round(t, 6) for t in tilt)), "tilt")
    elif d["tilt"] is not None and any(abs(x) > HALF for x in d["tilt"]):
        fail("orthorhombic cell but tilt line %s" % (d["tilt"],), "tilt")
    nat = len(a.atom_type_masses)
    if sorted(d["masses"]) != list(range(1, nat + 1)):
        fail("Masses lists types %s, structure has %d" % (sorted(d["masses"]), nat), "masses")
    else:
        for t in range(nat):
            m, comment = d["masses"][t + 1]
            if abs(m - float(a.atom_type_masses[t])) > HALF:
                fail("mass of type %d is %r, structure says %r" % (t + 1, m, float(a.atom_type_masses[t])), "masses")
            if comment != str(a.atom_type_labels[t]):
                fail("label comment of type %d is %r, structure says %r" % (t + 1, comment, a.atom_type_labels[t]), "labels")
    for sec, tab in [("Pair Coeffs", a.pair_coeffs)] + [(CSEC[k], getattr(a, "%s_type_coeffs" % k)) for k in atomsgen.KNAMES]:
        got = d["coeffs"][sec]
        if len(tab) == 0:
            if got:
                fail("%s section present although the structure has no such table" % sec, "coeffs")
            continue
        if sorted(got) != list(range(1, len(tab) + 1)):
            fail("%s lists types %s, table has %d entries" % (sec, sorted(got), len(tab)), "coeffs")
            continue
        for t, s in enumerate(tab):
            if (list(got[t + 1][0]), got[t + 1][1]) != (split_coeff(s)[0], split_coeff(s)[1]):
                fail("%s %d reads %r, structure says %r" % (sec, t + 1, got[t + 1], s), "coeffs")
    if len(d["atoms"]) != n:
        fail("Atoms section has %d lines for %d atoms" % (len(d["atoms"]), n), "atoms")
    else:
        for i, row in enumerate(d["atoms"]):
            if row["id"] != i + 1:
                fail("atom line %d has id %d" % (i + 1, row["id"]), "atoms")
                break
            if row["type"] != int(a.atom_types[i]) + 1:
                fail("atom %d has type %d, structure says %d" % (i + 1, row["type"], int(a.atom_types[i]) + 1), "atoms")
            if np.abs(np.array(row["pos"]) - a.positions[i]).max() > HALF:
                fail("atom %d at %s, structure says %s" % (i + 1, row["pos"], a.positions[i]), "positions")
            if style == "full":
                if row["mol"] != int(a.groups[i]) + 1:
                    fail("atom %d molecule id %d, structure group %d (+1)" % (i + 1, row["mol"], int(a.groups[i])), "groups")
                if abs(row["q"] - float(a.charges[i])) > HALF:
                    fail("atom %d charge %r, structure says %r" % (i + 1, row["q"], float(a.charges[i])), "charges")
    for kind in atomsgen.KNAMES:
        arr = np.asarray(getattr(a, atomsgen.ARR[kind])).reshape(-1, atomsgen.WIDTH[kind])
        types = getattr(a, "%s_types" % kind)
        rows = d["terms"][SEC[kind]]
        if len(rows) != len(arr):
            fail("%s section has %d lines for %d terms" % (SEC[kind], len(rows), len(arr)), "terms")
            continue
        for r, row in enumerate(rows):
            if row["type"] != int(types[r]) + 1 or row["atoms"] != tuple(int(x) + 1 for x in arr[r]):
                fail("%s %d reads type %d atoms %s, structure says type %d atoms %s" % (SEC[kind], r + 1, row["type"], row["atoms"], int(types[r]) + 1, tuple(int(x) + 1 for x in arr[r])), "terms")
        nt = d["types"].get("%s types" % kind, 0)
        if len(arr) and nt < int(max(types)) + 1:
            fail("%d %s types declared but type id %d in use" % (nt, kind, int(max(types)) + 1), "type_counts")


NONATOMIC = [False]


def compare_loaded(b, a, style, fail, what="read back"):
    """the structure read by mofun must reproduce `a` to the printed precision"""
    if len(b) != len(a):
        fail("%s: %d atoms, wrote %d" % (what, len(b), len(a)), "rb_atoms")
        return
    if len(a) and [int(x) for x in b.atom_types] != [int(x) for x in a.atom_types]:
        fail("%s: atom type ids differ" % what, "rb_types")
    if len(a) and np.abs(np.asarray(b.positions, float) - np.asarray(a.positions, float)).max() > HALF:
        fail("%s: positions differ by %.3g" % (what, np.abs(np.asarray(b.positions, float) - np.asarray(a.positions, float)).max()), "rb_positions")
    if b.cell is None or np.abs(np.array(b.cell, float) - np.array(a.cell, float)).max() > HALF:
        fail("%s: cell %s, wrote %s" % (what, None if b.cell is None else np.array(b.cell).tolist(), np.array(a.cell).tolist()), "rb_cell")
    if style == "full":
        if np.abs(np.asarray(b.charges, float) - np.asarray(a.charges, float)).max(initial=0) > HALF:
            fail("%s: charges differ" % what, "rb_charges")
        if [int(x) for x in b.groups] != [int(x) for x in a.groups]:
            fail("%s: groups differ: %s vs %s" % (what, list(b.groups)[:6], list(a.groups)[:6]), "rb_groups")
    if len(b.atom_type_masses) != len(a.atom_type_masses) or np.abs(np.asarray(b.atom_type_masses, float) - np.asarray(a.atom_type_masses, float)).max(initial=0) > HALF:
        fail("%s: masses differ" % what, "rb_masses")
    if [str(x) for x in b.atom_type_labels] != [str(x) for x in a.atom_type_labels]:
        fail("%s: type labels %s, wrote %s" % (what, list(b.atom_type_labels), list(a.atom_type_labels)), "rb_labels")
    want_els = [str(x) for x in a.atom_type_elements] if not NONATOMIC[0] else [str(i + 1) for i in range(len(a.atom_type_elements))]
    if [str(x) for x in b.atom_type_elements] != want_els:
        fail("%s: elements %s, expected %s" % (what, list(b.atom_type_elements), want_els), "rb_elements")
    for kind in atomsgen.KNAMES:
        w = atomsgen.WIDTH[kind]
        x = np.asarray(getattr(b, atomsgen.ARR[kind])).reshape(-1, w)
        y = np.asarray(getattr(a, atomsgen.ARR[kind])).reshape(-1, w)
        if x.shape != y.shape or not np.array_equal(x, y):
            fail("%s: %s differ" % (what, atomsgen.ARR[kind]), "rb_terms")
        elif [int(t) for t in getattr(b, "%s_types" % kind)] != [int(t) for t in getattr(a, "%s_types" % kind)]:
            fail("%s: %s types differ" % (what, kind), "rb_term_types")
    for name in ["pair_coeffs"] + ["%s_type_coeffs" % k for k in atomsgen.KNAMES]:
        x, y = list(getattr(b, name)), list(getattr(a, name))
        if [split_coeff(s) for s in x] != [split_coeff(s) for s in y]:
            fail("%s: %s differ token-wise: %s vs %s" % (what, name, x[:3], y[:3]), "rb_coeffs")


def save_text(a, style, via, tmpdir=None):
    kw = {"atom_format": style}
    if len(a) % 3 == 0:
        kw["file_comment"] = ["UiO-66 linker", "structure 12", "generated by the harness, step 3"][len(a) % 9 // 3]
    f = io.StringIO()
    if via == "method":
        if len(a) % 2:
            a.save_lmpdat(f, *([kw["atom_format"]] + ([kw["file_comment"]] if "file_comment" in kw else [])))      # by position, documented order
        else:
            a.save_lmpdat(f, **kw)
    elif via == "save_load_fileobj":
        a.save(f, filetype="lmpdat", **kw)
    else:
        # through Atoms.save with a path (str or pathlib), options passed along
        import os
        import pathlib
        import shutil
        import tempfile
        d = tempfile.mkdtemp(prefix="vmon-c13-")
        try:
            # every third file gets a name whose extension says nothing (or something else); the format is then named explicitly
            name = ["out.lmpdat", "out.lmpdat", "out.data", "out.lmpdat.tmp", "out.txt", "out.cif"][len(a) % 6]
            p = os.path.join(d, name)
            if not name.endswith(".lmpdat"):
                kw = dict(kw, filetype="lmpdat")
            a.save(p if len(a) % 2 else pathlib.Path(p), **kw)
            with open(p, encoding="utf-8") as fh:
                return fh.read()
        finally:
            shutil.rmtree(d, ignore_errors=True)
    return f.getvalue()


def Atoms_load_text(text, style):
    from mofun import Atoms
    return Atoms.load_lmpdat(io.StringIO(text), atom_format=style)


def load_text(text, style, via, case_id):
    import os
    import tempfile
    from mofun import Atoms
    if via == "method":
        return Atoms.load_lmpdat(io.StringIO(text), atom_format=style)
    if via == "save_load_fileobj":
        return Atoms.load(io.StringIO(text), filetype="lmpdat", atom_format=style)
    from vmon.oracle.util import worker_dir
    name = ["x.lmpdat", "x.data", "x.lmpdat", "x.cml"][case_id % 4 if case_id % 8 >= 4 else 0]
    p = os.path.join(worker_dir(), name)        # the same path from case to case, each time with other content
    if name != "x.lmpdat":
        with open(p, "w", encoding="utf-8") as f:
            f.write(text)
        import pathlib
        return Atoms.load(pathlib.Path(p) if case_id % 2 else p, filetype="lmpdat", atom_format=style)
    from vmon.oracle.util import prime_path
    prime_path(p)
    with open(p, "w", encoding="utf-8") as f:
        f.write(text)
    import pathlib
    return Atoms.load(pathlib.Path(p) if case_id % 2 else p, atom_format=style)


def run_case(case, ctx):
    rng = np.random.default_rng(case["s"])
    st = ctx.stats
    style = case["style"]
    a = build(rng, case)
    NONATOMIC[0] = bool(case.get("_nonatomic"))
    if NONATOMIC[0]:
        st.count("structures_with_a_labelled_type_whose_mass_is_no_element")
    from vmon.oracle.util import flavour
    st.seen("array_flavour", flavour(a, case["s"] // 7))
    w = {"style": style, "structure": atomsgen.describe(a)}

    def fail(msg, cls):
        ctx.fail(msg, witness=dict(w, clause=cls))
    try:
        t1 = save_text(a, style, case["via"])
    except Exception as e:
        if type(e).__name__ == "PostBroken":
            raise
        fail("save_lmpdat raised %s: %s" % (type(e).__name__, e), "save_raises")
        return
    st.count("files_written")
    d = lmpread.parse(t1, atom_style=style)
    compare_file_with_atoms(d, a, style, fail)
    st.count("files_parsed_independently")
    # second opinion on cell and positions
    try:
        import warnings
        import ase.io
        with warnings.catch_warnings():
            warnings.simplefilter("ignore")
            aa = ase.io.read(io.StringIO(t1), format="lammps-data", atom_style=style, sort_by_id=True)
        if np.abs(aa.cell.array - np.array(a.cell, float)).max() > HALF:
            fail("ASE reads cell %s, structure says %s" % (aa.cell.array.tolist(), np.array(a.cell).tolist()), "ase_cell")
        from vmon.oracle.geometry import equal_mod_lattice
        if len(a) and equal_mod_lattice(np.array(a.cell, float), aa.positions, a.positions).max() > 2e-6:
            fail("ASE reads other positions than the structure holds", "ase_positions")
        st.count("ase_agreed")
    except Exception as e:
        st.count("ase_reader_unusable")
    try:
        b = load_text(t1, style, case["via"], case["s"])
    except Exception as e:
        if type(e).__name__ == "PostBroken":
            raise
        fail("load_lmpdat of mofun's own file raised %s: %s" % (type(e).__name__, e), "load_raises")
        return
    compare_loaded(b, a, style, fail)
    st.count("files_read_back")
    # the same file as another program or platform would hand it over: CRLF line ends, tabs between the columns, trailing blanks
    try:
        from vmon.oracle.util import Pipe
        from mofun import Atoms as _A
        compare_loaded(_A.load_lmpdat(Pipe(t1), atom_format=style), a, style, lambda m, c: fail("file read from a stream that cannot seek: %s" % m, c), what="read")
        st.count("reads_from_a_stream_that_cannot_seek")
    except Exception as e:
        if type(e).__name__ == "PostBroken":
            raise
        fail("reading the file from a stream that cannot seek raised %s: %s" % (type(e).__name__, str(e)[:120]), "pipe_raises")
    for vname, vt in (("CRLF line ends", t1.replace("\n", "\r\n")), ("tabs between columns", "\n".join((l.replace("   ", "\t").replace("  ", "\t") if (l[:1].isspace() or l[:1].isdigit()) and "#" not in l else l) for l in t1.split("\n"))),
                      ("trailing blanks", "\n".join(l + "  " if l.strip() else l for l in t1.split("\n"))),
                      # as LAMMPS' own write_data names the styles behind the section keywords: "Atoms # full", "Pair Coeffs # lj/cut"
                      ("styles named behind the section keywords", "\n".join((l + KEYWORD_COMMENTS[l.strip()].replace("%s", style)) if l.strip() in KEYWORD_COMMENTS else l for l in t1.split("\n")))):
        try:
            bv = Atoms_load_text(vt, style)
            compare_loaded(bv, a, style, lambda m, c: fail("file with %s: %s" % (vname, m), c), what="read")
            st.count("reading_variants")
        except Exception as e:
            if type(e).__name__ == "PostBroken":
                raise
            fail("file with %s: load_lmpdat raised %s: %s" % (vname, type(e).__name__, str(e)[:120]), "variant_raises")
    t2 = save_text(b, style, "method")
    c = load_text(t2, style, "method", 0)
    t3 = save_text(c, style, "method")
    if t3 != t2:
        diff = [(x, y) for x, y in zip(t2.split("\n"), t3.split("\n")) if x != y][:3]
        fail("save(load(save(b))) differs from save(b): %s" % diff, "not_idempotent")
    st.count("rewrite_checked")
    if t2 == t1:
        st.count("first_rewrite_already_identical")
    st.seen("style", style)
    if case.get("_wide_coordinates") and (np.abs(a.positions).max() >= 1000 or a.positions.min() <= -100):
        st.count("structures_with_coordinates_beyond_the_usual_field_width")
    if case.get("_empty_label"):
        st.count("structures_with_an_empty_type_label")
    if case.get("many_atoms"):
        st.count("structures_with_more_than_a_thousand_atoms")
    if case.get("_non_ascii"):
        st.count("structures_with_non_ascii_labels_and_comments.via_%s" % case["via"])
    if case.get("_table_without_terms"):
        st.count("structures_with_a_coefficient_table_for_a_kind_without_terms")
    st.seen("cell", case["cell"] + ("" if case["cell"] == "ortho" else str(case["tilt_signs"])))
    st.seen("via", case["via"])
    tl = float(np.abs([a.cell[1, 0], a.cell[2, 0], a.cell[2, 1]]).max())
    if 0 < tl < 1e-3:
        st.count("cells_with_tilts_near_the_printed_precision")
    st.seen("tilt_zero_pattern", "%d%d%d" % (a.cell[1, 0] != 0, a.cell[2, 0] != 0, a.cell[2, 1] != 0))
    if case.get("many_types"):
        st.count("files_with_two_digit_type_ids")
        for k in atomsgen.KNAMES:
            if len(getattr(a, "%s_type_coeffs" % k)) >= 10:
                st.seen("two_digit_table", k)
        if len(a.pair_coeffs) >= 10:
            st.seen("two_digit_table", "pair")
    ntab = sum(1 for k in atomsgen.KNAMES if len(getattr(a, "%s_type_coeffs" % k)))
    for k in atomsgen.KNAMES:
        if len(getattr(a, "%s_type_coeffs" % k)):
            st.seen("tables", k)
    if len(a.pair_coeffs):
        st.seen("tables", "pair")
    # the title line must carry the requested comment (read_data ignores it, but the option has to reach the writer)
    if len(a) % 3 == 0:
        fc = ["UiO-66 linker", "structure 12", "generated by the harness, step 3"][len(a) % 9 // 3]
        if not t1.split("\n")[0].startswith(fc):
            fail("the title line is %r although file_comment=%r was requested (via %s)" % (t1.split("\n")[0], fc, case["via"]), "file_comment")
    # history: the object that has just been written is edited (same sizes everywhere) and written again; the second file
    # must state the object's content at the time of the second write
    if case["s"] % 2 == 0 and len(a):
        # (an object whose arrays are flagged read-only cannot be edited where it is: the user rebinds writable copies first)
        for name in ["positions", "charges", "atom_types", "cell", "groups"] + [atomsgen.ARR[k] for k in atomsgen.KNAMES] + ["%s_types" % k for k in atomsgen.KNAMES]:
            v = getattr(a, name)
            if isinstance(v, np.ndarray) and not v.flags.writeable:
                setattr(a, name, v.copy())
        edits = []
        nat = len(a.atom_type_labels)
        pick = int(rng.integers(4))
        if pick in (0, 3):
            new = ["R%d_%s" % (t, str(a.atom_type_labels[t])[:3]) for t in range(nat)]
            if rng.integers(2):
                a.atom_type_labels = type(a.atom_type_labels)(new) if isinstance(a.atom_type_labels, list) else np.array(new)
                edits.append("labels_reassigned")
            else:
                lab = np.asarray(a.atom_type_labels)
                if isinstance(a.atom_type_labels, np.ndarray) and lab.dtype.kind == "U":
                    for t in range(nat):
                        a.atom_type_labels[t] = ("Q" + str(lab[t])[1:]) if len(str(lab[t])) else "Q"
                    edits.append("labels_edited_in_place")
                else:
                    a.atom_type_labels = new
                    edits.append("labels_reassigned")
        if pick in (1, 3):
            a.positions *= 0.5
            a.charges += 0.125
            if len(a) >= 2:
                a.atom_types[[0, -1]] = a.atom_types[[-1, 0]]
            edits.append("positions_charges_types_in_place")
        if pick in (2, 3):
            a.cell[0, 0] *= 1.25
            for kind in atomsgen.KNAMES:
                ty = getattr(a, "%s_types" % kind)
                if len(ty) >= 2:
                    ty[[0, -1]] = ty[[-1, 0]]
                arr = getattr(a, atomsgen.ARR[kind])
                if len(arr):
                    arr[0] = arr[0][::-1].copy()
            edits.append("cell_terms_in_place")
        w2 = dict(w, history=edits, structure_now=atomsgen.describe(a))

        def fail2(msg, cls):
            ctx.fail("second write of the same object after %s: %s" % ("+".join(edits), msg), witness=dict(w2, clause=cls))
        try:
            t4 = save_text(a, style, "method")
            compare_file_with_atoms(lmpread.parse(t4, atom_style=style), a, style, fail2)
            compare_loaded(load_text(t4, style, "method", 0), a, style, fail2, what="read back after the second write")
            st.count("second_writes_after_edit")
            for e in edits:
                st.seen("history_edit", e)
        except Exception as e:
            if type(e).__name__ == "PostBroken":
                raise
            fail2("raised %s: %s" % (type(e).__name__, e), "second_write_raises")
    if case["cell"] == "tri" or ntab >= 2:
        ctx.nontrivial(case["s"])
    if case["cell"] == "tri" and ntab >= 2:
        ctx.sample({"style": style, "structure": atomsgen.describe(a), "file_head": t1.split("\n")[:22]})


def requirements(stats, tier):
    need = []
    if stats.get("files_parsed_independently") < (200 if tier == "quick" else 100000):
        need.append("too few files observed")
    if stats.nseen("cell") < 9:
        need.append("not all tilt-sign combinations observed (%d of 9 cell classes)" % stats.nseen("cell"))
    if stats.get("cells_with_tilts_near_the_printed_precision") < 3:
        need.append("cells with tilt factors near the printed precision: %d" % stats.get("cells_with_tilts_near_the_printed_precision"))
    if stats.nseen("two_digit_table") < 5:
        need.append("coefficient tables with >= 10 entries observed for only %d of 5 sections" % stats.nseen("two_digit_table"))
    if stats.get("second_writes_after_edit") < (60 if tier == "quick" else 20000) or stats.nseen("history_edit") < 3:
        need.append("second writes of an edited object: %d, edit kinds %s" % (stats.get("second_writes_after_edit"), sorted(stats.sets.get("history_edit", []))))
    if stats.get("structures_with_a_coefficient_table_for_a_kind_without_terms") < (10 if tier == "quick" else 2000):
        need.append("structures with a coefficient table for a kind without terms: %d" % stats.get("structures_with_a_coefficient_table_for_a_kind_without_terms"))
    if stats.get("structures_with_coordinates_beyond_the_usual_field_width") < (8 if tier == "quick" else 2000):
        need.append("structures with coordinates <= -100 or >= 1000: %d" % stats.get("structures_with_coordinates_beyond_the_usual_field_width"))
    if stats.get("structures_with_non_ascii_labels_and_comments.via_save_load_path") < (5 if tier == "quick" else 500):
        need.append("structures with non-ASCII labels and comments saved to and loaded from a path: %d" % stats.get("structures_with_non_ascii_labels_and_comments.via_save_load_path"))
    if stats.get("structures_with_a_labelled_type_whose_mass_is_no_element") < (20 if tier == "quick" else 5000):
        need.append("structures with a labelled type whose mass is no element's: %d" % stats.get("structures_with_a_labelled_type_whose_mass_is_no_element"))
    if stats.get("structures_with_more_than_a_thousand_atoms") < (4 if tier == "quick" else 150):
        need.append("structures with more than a thousand atoms: %d" % stats.get("structures_with_more_than_a_thousand_atoms"))
    if stats.nseen("array_flavour") < 5:
        need.append("array flavours of the structure (integer widths, memory order, read-only): %s" % sorted(stats.sets.get("array_flavour", [])))
    if stats.get("structures_with_an_empty_type_label") < (5 if tier == "quick" else 1000):
        need.append("structures with an empty type label: %d" % stats.get("structures_with_an_empty_type_label"))
    if stats.nseen("style") < 2 or stats.nseen("tables") < 5:
        need.append("both styles and all five coefficient sections must be observed")
    if stats.get("ase_agreed") < stats.get("files_written") * 0.9:
        need.append("ASE second opinion available for only %d of %d files" % (stats.get("ase_agreed"), stats.get("files_written")))
    return need
