"""C12 - replication describes the same crystal in a larger cell."""
import itertools

import numpy as np

from vmon.gen import atomsgen
from vmon.oracle import atomsmodel as AM
from vmon.oracle.util import deep_diff, clone

PROPERTY = "C12"
RULE = ("Generated structures (1-7 atoms, all four term kinds incl. impropers, tables, extra columns, unique atom ids) "
        "in orthorhombic, LAMMPS-triclinic (all tilt signs), arbitrarily rotated triclinic and rotated orthorhombic cells (one structure in three: whole-number cells with negative entries whose lattice offsets cancel exactly), replicated by EVERY factor "
        "triple in {1..F}^3 (F=3 quick, 5 thorough). Oracle: every original id appears exactly once per image offset "
        "i*A+j*B+k*C with identical resolved type data, charge, group; cell rows a*A,b*B,c*C; every term copied within "
        "each image with its resolved type and extras; tables unchanged; input object deep-equal to its snapshot; "
        "(1,1,1) equal to a copy. Non-trivial: unequal factors on a non-orthorhombic cell or a structure with impropers; "
        "distinct by (seed, factors).")
ASSUMPTIONS = ["atom ids are carried in the charge array"]
ANCHOR_FUNCS = [("mofun/atoms.py", "Atoms.replicate")]
REQUIRED_LINES = [("mofun/atoms.py", "repl_atoms.extend(transatoms, offsets=")]
JOBS = {"quick": 4, "thorough": 16}


def exhaustive(tier):
    return True   # over the factor triples


CANCELLING_CELLS = [[[6, 6, 0], [-6, 6, 0], [0, 0, 9]], [[7, 0, 0], [0, 8, 0], [-5, 0, 5]], [[4, 0, 0], [-8, 4, 0], [0, 0, 6]], [[5, 0, 0], [0, 6, 0], [0, -7, 7]],
                    [[3, -3, 0], [3, 3, 1], [0, 0, 8]], [[4, 0, 0], [-2, 5, 0], [-2, -5, 7]], [[6, -2, -4], [0, 7, 0], [1, 0, 8]], [[5, 0, 0], [-5, 5, 0], [0, -5, 5]],
                    [[8, 0, 0], [-4, 4, 0], [-4, -4, 8]], [[0, 6, 0], [-6, 0, 0], [0, 0, 7]]]


def cases(tier, seed):
    rng = np.random.default_rng([12, seed])
    F, per = (3, 4) if tier == "quick" else (5, 24)
    out = []
    kc = 0      # running number of the structures with a prescribed combination of term kinds: every one of the 16 comes up in turn
    for ci, cellkind in enumerate(("ortho", "tri", "rotated", "rotated_ortho", "tiny_tilt")):
        for j in range(per):
            s = int(rng.integers(1 << 30))
            free = (ci * per + j) % 4 == 3 or j == 1
            combo = None if free else (kc * 7 + seed) % 16
            kc += 0 if free else 1
            for dims in itertools.product(range(1, F + 1), repeat=3):
                out.append({"cell": cellkind, "s": s, "dims": list(dims), "n": 1 if j == 1 else 1 + (s + j) % 7, "impropers": j % 2 == 0, "origin": j % 2 == 1,
                            "combo": combo, "cancel": (ci * per + j) % 3 == 2})
    # large factors along one axis (a rod or a slab of some hundred images) of structures of one to three atoms
    for j, dims in enumerate([(49, 1, 1), (1, 98, 1), (1, 1, 103), (107, 1, 2), (2, 196, 1), (1, 3, 197), (64, 1, 1), (1, 100, 1)] if tier == "quick" else
                             [(f, 1, 1) for f in range(40, 260, 3)] + [(1, f, 1) for f in range(41, 260, 3)] + [(1, 2, f) for f in range(42, 260, 3)]):
        out.append({"cell": ["ortho", "tri", "rotated"][j % 3], "s": int(rng.integers(1 << 30)), "dims": list(dims), "n": 1 + j % 3, "impropers": False, "origin": j % 2 == 1,
                    "combo": None, "long": True})
    return out


def run_case(case, ctx):
    _run(case, ctx, None)
    if case["s"] % 4 == 0 and tuple(case["dims"]) != (1, 1, 1):
        # right afterwards, in the same process: the same crystal described in a rotated frame - cell lengths and angles are
        # identical to the structure just replicated, the cell vectors are not
        _run(case, ctx, "rotated_twin")
        ctx.stats.count("replications_of_a_rotated_twin_right_after_the_original")


def _run(case, ctx, variant):
    rng = np.random.default_rng(case["s"])
    st = ctx.stats
    dims = tuple(case["dims"])
    kinds = {"bond": int(rng.integers(0, 4)), "angle": int(rng.integers(0, 3)), "dihedral": int(rng.integers(0, 3)),
             "improper": (1 + int(rng.integers(0, 2))) if case["impropers"] else 0}
    if case.get("combo") is not None:
        # every combination of present / absent term kinds matters (e.g. angles or impropers without any bond: rigid water, planar centres)
        present = [bool(case["combo"] >> b & 1) for b in range(4)]
        case = dict(case, n=max(case["n"], 4))
        kinds = {k: (max(1, kinds[k]) if p else 0) for k, p in zip(["bond", "angle", "dihedral", "improper"], present)}
    # one structure in three: several atom types of one element (and, half of those, of one label), told apart by the pair table only
    sh = case["s"] % 3 == 0 and case["n"] >= 3
    a = atomsgen.gen_atoms(rng, case["n"], tag="S", cell=case["cell"], kinds=kinds, max_terms=3, scale=6.0, **(dict(shared_elements=True, pair=True, n_types=3) if sh else {}))
    if len(set(str(x) for x in a.atom_type_labels)) < len(a.atom_type_labels):
        st.count("structures_with_two_atom_types_of_one_label")
    if case.get("origin"):
        # the textbook primitive cell: an atom exactly at the origin (all coordinates zero) - alone, or with the others elsewhere
        a.positions[0] = 0.0
        st.count("structures_with_an_atom_at_the_origin")
        if len(a) == 1:
            st.count("one_atom_cells_with_the_atom_at_the_origin")
    if variant == "rotated_twin":
        from vmon.oracle.geometry import random_rotation
        Rm = random_rotation(np.random.default_rng(case["s"] + 1))
        a.cell = np.array(a.cell, float).dot(Rm.T)
        a.positions = np.asarray(a.positions, float).dot(Rm.T)
    if case.get("cancel") and variant is None:
        # cells in which lattice offsets cancel exactly: whole-number vectors with negative entries whose components (or some of
        # them) add up to zero for one vector or for a sum of vectors - a tetragonal cell turned by 45 degrees, a monoclinic cell
        # with beta = 135 degrees, negative whole-number tilts. Every image is still a different place.
        cc = CANCELLING_CELLS[(case["s"] // 6) % len(CANCELLING_CELLS)]
        cc = np.array(cc, float) * [1.0, 1.0, 0.5, 2.0][(case["s"] // 60) % 4]
        if (case["s"] // 240) % 2:
            cc = cc[:, [1, 2, 0]]
        a.cell = cc
        st.count("structures_in_cells_whose_lattice_offsets_cancel_exactly")
    from vmon.oracle.util import flavour
    st.seen("array_flavour", flavour(a, case["s"] // 3))
    if case["s"] % 5 == 2 and variant is None:
        # coordinates held in single precision (a trajectory frame assigned to the object): on a 1/8 grid, in a cell on a 1/4
        # grid, so that every image position is exact in single precision as well and the comparison needs no allowance
        cell32 = np.round(np.array(a.cell, float) * 4.0) / 4.0
        if abs(np.linalg.det(cell32)) > 1.0:
            a.cell = cell32
            a.positions = (np.round(np.asarray(a.positions, float) * 8.0) / 8.0).astype(np.float32)
            st.count("structures_whose_coordinates_are_held_in_single_precision")
    if case.get("long"):
        st.count("replications_with_a_factor_of_forty_or_more")
    snap = clone(a)
    m0 = AM.resolve(a)
    cell = np.array(a.cell, float)
    try:
        r = a.replicate([dims, list(dims), np.array(dims)][case["s"] % 3]) if case["s"] % 2 else a.replicate(repldims=[dims, list(dims), np.array(dims)][case["s"] % 3])
        st.seen("factor_container", ["tuple", "list", "ndarray"][case["s"] % 3])
    except Exception as e:
        if type(e).__name__ == "PostBroken":
            raise
        ctx.fail("replicate(%s) raised %s: %s" % (dims, type(e).__name__, e), witness={"dims": dims, "structure": atomsgen.describe(a)})
        return
    st.count("replications_checked")
    st.seen("term_kinds_present", "".join("BADI"[i] if len(getattr(a, atomsgen.ARR[k])) else "-" for i, k in enumerate(atomsgen.KNAMES)))
    st.seen("cell_kind", case["cell"])
    st.seen("dims", list(dims))
    w = {"dims": dims, "structure": atomsgen.describe(a)}
    d = deep_diff(a, snap)
    if d:
        ctx.fail("replicate%s modified its input: %s" % (dims, d[:3]), witness=w)
    mr = AM.resolve(r)
    nimg = dims[0] * dims[1] * dims[2]
    if len(mr.atoms) != nimg * len(m0.atoms):
        ctx.fail("replicate%s of %d atoms has %d atoms, expected %d" % (dims, len(m0.atoms), len(mr.atoms), nimg * len(m0.atoms)), witness=w)
        return
    want_cell = cell * np.array(dims, float).reshape(3, 1)
    if r.cell is None or not np.allclose(np.array(r.cell, float), want_cell, rtol=0, atol=1e-9):
        ctx.fail("replicate%s: cell rows are %s, expected a*A,b*B,c*C = %s" % (dims, np.round(np.array(r.cell, float), 6).tolist(), np.round(want_cell, 6).tolist()), witness=w)
    base = {x["id"]: x for x in m0.atoms}
    inv = np.linalg.inv(cell)
    image_of = []
    seen = {}
    for idx, x in enumerate(mr.atoms):
        b = base.get(x["id"])
        if b is None:
            ctx.fail("replicate%s: atom with unknown id %s" % (dims, x["id"]), witness=w)
            return
        f = (x["pos"] - b["pos"]).dot(inv)
        img = np.round(f)
        if np.abs((img - f).dot(cell)).max() > 1e-9 * max(1.0, np.abs(x["pos"]).max()):
            ctx.fail("replicate%s: a copy of atom %s sits at %s, which is not its position %s plus i*A+j*B+k*C" % (dims, x["id"], x["pos"], b["pos"]), witness=w)
            return
        img = tuple(int(v) for v in img)
        if any(v < 0 or v >= dv for v, dv in zip(img, dims)):
            ctx.fail("replicate%s: atom %s appears at image %s outside 0<=i<a" % (dims, x["id"], img), witness=w)
            return
        seen[(x["id"], img)] = seen.get((x["id"], img), 0) + 1
        image_of.append(img)
        for fld in ("el", "label", "mass", "pair", "charge", "group", "extras"):
            if x[fld] != b[fld]:
                ctx.fail("replicate%s: copy of atom %s at image %s has %s %r, original %r" % (dims, x["id"], img, fld, x[fld], b[fld]), witness=w)
    if len(seen) != len(mr.atoms) or any(v != 1 for v in seen.values()):
        ctx.fail("replicate%s: some (atom, image) pair does not appear exactly once" % (dims,), witness=w)
        return
    # terms: within one image, every original term once per image
    pos_index = {}
    for kind in AM.KNAMES:
        arr = np.asarray(getattr(r, atomsgen.ARR[kind])).reshape(-1, atomsgen.WIDTH[kind])
        got = {}
        if arr.size and (int(arr.min()) < 0 or int(arr.max()) >= len(image_of)):
            ctx.fail("replicate%s: %s refer to atom index %d, the replica has %d atoms" % (dims, atomsgen.ARR[kind], int(arr.max()) if int(arr.max()) >= len(image_of) else int(arr.min()), len(image_of)), witness=w)
            continue
        for row, (tup, tok, ex) in zip(arr, mr.terms[kind]):
            imgs = {image_of[int(i)] for i in row}
            if len(imgs) != 1:
                ctx.fail("replicate%s: %s %s joins atoms of different images %s" % (dims, kind, tup, sorted(imgs)), witness=w)
                continue
            key = (imgs.pop(), AM._canon(kind, tup), repr(tok), tuple(sorted(ex.items())))
            got[key] = got.get(key, 0) + 1
        want = {}
        for img in itertools.product(*[range(dv) for dv in dims]):
            for tup, tok, ex in m0.terms[kind]:
                key = (img, AM._canon(kind, tup), repr(tok), tuple(sorted(ex.items())))
                want[key] = want.get(key, 0) + 1
        if got != want:
            extra = [k for k in got if got[k] > want.get(k, 0)]
            missing = [k for k in want if want[k] > got.get(k, 0)]
            ctx.fail("replicate%s: %s terms differ from one copy per image: unexpected %s missing %s" % (dims, kind, extra[:2], missing[:2]), witness=w)
        if list(getattr(r, "%s_type_coeffs" % kind)) != list(getattr(snap, "%s_type_coeffs" % kind)):
            ctx.fail("replicate%s: %s coefficient table changed" % (dims, kind), witness=w)
    for tab in ("pair_coeffs", "atom_type_elements", "atom_type_labels"):
        if [str(x) for x in getattr(r, tab)] != [str(x) for x in getattr(snap, tab)]:
            ctx.fail("replicate%s: %s changed" % (dims, tab), witness=w)
    if not np.allclose(np.array(r.atom_type_masses, float), np.array(snap.atom_type_masses, float)):
        ctx.fail("replicate%s: atom_type_masses changed" % (dims,), witness=w)
    if dims == (1, 1, 1):
        bad = AM.compare(mr, m0)
        for f, msg in bad[:2]:
            ctx.fail("replicate(1,1,1) is not the identity: %s" % msg, witness=w)
        st.count("identity_checked")
    # the result must be an object of its own: moving it (a public in-place mutator) must not move the original
    try:
        r.translate(np.array([0.25, -0.5, 1.0]))
        if len(r.bonds):
            r.bonds[0, 0] = r.bonds[0, 0]
    except Exception:
        pass
    d = deep_diff(a, snap)
    if d:
        ctx.fail("replicate%s returned an object that shares state with its input: translating the result changed the original's %s" % (dims, d[:3]), witness=w)
    nonortho = case["cell"] != "ortho"
    if kinds["improper"] and len(a.impropers):
        st.count("with_impropers")
    if (nonortho and len(set(dims)) > 1) or (kinds["improper"] and len(a.impropers)):
        ctx.nontrivial([case["s"], list(dims)])
    if dims == (1, 2, 3):
        ctx.sample({"dims": dims, "structure": atomsgen.describe(a), "result_atoms": len(r), "result_cell": np.round(np.array(r.cell, float), 4).tolist()})


def requirements(stats, tier):
    need = []
    if stats.get("structures_whose_coordinates_are_held_in_single_precision") < (20 if tier == "quick" else 1000):
        need.append("structures whose coordinates are held in single precision: %d" % stats.get("structures_whose_coordinates_are_held_in_single_precision"))
    if stats.get("structures_in_cells_whose_lattice_offsets_cancel_exactly") < (100 if tier == "quick" else 3000):
        need.append("replications in cells whose lattice offsets cancel exactly: %d" % stats.get("structures_in_cells_whose_lattice_offsets_cancel_exactly"))
    if stats.get("structures_with_two_atom_types_of_one_label") < 20:
        need.append("structures with two atom types of one label: %d replications" % stats.get("structures_with_two_atom_types_of_one_label"))
    if stats.get("replications_of_a_rotated_twin_right_after_the_original") < (20 if tier == "quick" else 500):
        need.append("replications of a rotated twin right after the original: %d" % stats.get("replications_of_a_rotated_twin_right_after_the_original"))
    if stats.get("one_atom_cells_with_the_atom_at_the_origin") < 3:
        need.append("one-atom cells with the atom at the origin: %d" % stats.get("one_atom_cells_with_the_atom_at_the_origin"))
    F = 3 if tier == "quick" else 5
    if stats.nseen("dims") < F ** 3:
        need.append("only %d of %d factor triples observed" % (stats.nseen("dims"), F ** 3))
    if stats.get("replications_with_a_factor_of_forty_or_more") < (8 if tier == "quick" else 200):
        need.append("replications with a factor of forty or more along one axis: %d" % stats.get("replications_with_a_factor_of_forty_or_more"))
    if stats.nseen("array_flavour") < 5:
        need.append("array flavours of the structure (integer widths, memory order, read-only): %s" % sorted(stats.sets.get("array_flavour", [])))
    if stats.nseen("cell_kind") < 5:
        need.append("not all four cell classes observed")
    if stats.nseen("term_kinds_present") < (8 if tier == "quick" else 14):
        need.append("combinations of present/absent term kinds observed: %s" % sorted(stats.sets.get("term_kinds_present", [])))
    if stats.get("with_impropers") < 10:
        need.append("fewer than 10 replications of structures with impropers")
    return need
