"""C07 - overlapping replacements are refused, never silently corrupted."""
import numpy as np

from vmon import events
from vmon.gen import planted, replcase
from vmon.oracle import geometry as G

PROPERTY = "C07"
RULE = ("Structures in which pattern occurrences share atoms by construction: alternating chains X-Y-X-Y, stars (a centre "
        "with 3-6 arms), alternating rings, corner-sharing Y-X-Y units and homonuclear chains, in orthorhombic and "
        "triclinic cells, also straddling cell faces. Replacement patterns: keep the centre and replace the arms, keep "
        "the arms and replace the centre, substitute everything, identical pattern (all atoms shared), empty, larger "
        "with shared atoms; replace_all on/off; ignore flag on/off; fractions < 1 with the sample stubbed to first-k / "
        "last-k / seeded. The found matches are taken from the hooked search (also when the call raises) and the "
        "selection from the hooked random.sample; the removal set of each selected match is computed by the harness "
        "from the two patterns; the expected outcome (dedicated error / no error) is then a pure function and is "
        "compared with what the call did; without the error, atoms are conserved: len(out) = len(in) - |union of "
        "removal sets| + inserted. Non-trivial: at least two selected matches share an atom; distinct by seed.")
ASSUMPTIONS = ["'would remove' is evaluated with the harness's own notion of shared atoms (same element, coordinates within 1e-5)"]
ANCHOR_FUNCS = [("mofun/mofun.py", "replace_pattern_in_structure")]
REQUIRED_LINES = [("mofun/mofun.py", "raise AtomsShouldNotBeDeletedTwice()"), ("mofun/mofun.py", "to_delete |= set(to_delete_linker)")]
JOBS = {"quick": 4, "thorough": 16}
TOPOLOGIES = ["chain", "star", "ring", "corner_units", "homo_chain"]
REPLS = ["keep_first_replace_rest", "keep_rest_replace_first", "substitute_all", "identical", "empty", "larger_keep_first", "keep_last_only", "nudge_first_replace_rest", "nudge_rest_replace_first"]


def cases(tier, seed):
    rng = np.random.default_rng([7, seed])
    n = 560 if tier == "quick" else 200000
    out = []
    for j in range(n):
        out.append({"s": int(rng.integers(1 << 30)), "topology": TOPOLOGIES[j % 5], "repl": REPLS[(j // 5) % len(REPLS)], "cell": ["ortho", "tri+-+", "tri--+", "ortho"][(j // 3) % 4],
                    "replace_all": (j // 7) % 3 == 0, "ignore": (j // 2) % 4 == 0, "fraction": [1.0, 1.0, 0.5, 0.34, 0.75][(j // 11) % 5],
                    "sample": ["first", "last", "real", "script_free", "script_conflict"][(j // 13) % 5]})
    # one atom claimed by 128..260 matches at once (a hub with that many like neighbours): counters and masks of one byte end here
    for j in range(3 if tier == "quick" else 60):
        out.append({"s": int(rng.integers(1 << 30)), "topology": "big_star", "repl": ["keep_rest_replace_first", "substitute_all", "empty"][j % 3], "cell": "ortho",
                    "replace_all": False, "ignore": False, "fraction": 1.0, "sample": "real", "k": [130, 260, 128][j % 3]})
    # a search pattern of more than 256 atoms whose last atom is shared by two occurrences
    for j in range(2 if tier == "quick" else 12):
        out.append({"s": int(rng.integers(1 << 30)), "topology": "big_helix", "repl": ["keep_first_replace_rest", "substitute_all"][j % 2], "cell": "ortho",
                    "replace_all": bool(j % 2), "ignore": False, "fraction": 1.0, "sample": "real", "k": [260, 300][j % 2]})
    return out


def build(rng, case):
    """-> (pattern dict, structure Atoms, description)"""
    from mofun import Atoms
    top = case["topology"]
    d = float(rng.uniform(1.3, 1.8))
    Rm = G.random_rotation(rng)
    els, pos = [], []
    if top in ("chain", "homo_chain"):
        m = int(rng.integers(3, 7))
        for i in range(m):
            els.append("N" if top == "homo_chain" else ("Si" if i % 2 == 0 else "O"))
            pos.append([i * d, 0, 0])
        pat = {"elements": ["N", "N"] if top == "homo_chain" else ["Si", "O"], "positions": np.array([[0, 0, 0], [d, 0, 0]], float)}
    elif top == "big_helix":
        # a search pattern of 260 atoms (a jittered helix of O / N / B atoms, no symmetry), twice in the structure: the second
        # copy is the first turned by 180 degrees about an axis through the pattern's LAST atom, which the two copies share
        m = case["k"]
        th = np.arange(m) * 0.7
        hel = np.stack([np.arange(m) * 0.165, 2.0 * np.cos(th), 2.0 * np.sin(th)], axis=1) + rng.uniform(-0.12, 0.12, (m, 3))
        hels = [["O", "N", "B"][int(x)] for x in rng.integers(0, 3, m)]
        second = hel[:-1].copy()
        second = (second - hel[-1]) * np.array([-1.0, -1.0, 1.0]) + hel[-1]        # rotation by pi about the z axis through the last atom
        els = hels + hels[:-1]
        pos = [list(p) for p in hel] + [list(p) for p in second]
        pat = {"elements": list(hels), "positions": hel.copy()}
    elif top == "big_star":
        k = case["k"]
        els.append("Zr")
        pos.append([0, 0, 0])
        ga = np.pi * (3 - np.sqrt(5))
        for i in range(k):          # k points spread over a sphere
            z = 1 - 2 * (i + 0.5) / k
            r = np.sqrt(1 - z * z)
            els.append("O")
            pos.append([d * r * np.cos(ga * i), d * r * np.sin(ga * i), d * z])
        pat = {"elements": ["Zr", "O"], "positions": np.array([[0, 0, 0], [d, 0, 0]], float)}
    elif top == "star":
        k = int(rng.integers(3, 7))
        dirs = {3: [[1, 0, 0], [-0.5, 0.866, 0], [-0.5, -0.866, 0]], 4: [[1, 1, 1], [1, -1, -1], [-1, 1, -1], [-1, -1, 1]],
                5: [[1, 0, 0], [-1, 0, 0], [0, 1, 0], [0, -1, 0], [0, 0, 1]], 6: [[1, 0, 0], [-1, 0, 0], [0, 1, 0], [0, -1, 0], [0, 0, 1], [0, 0, -1]]}[k]
        els.append("Zr")
        pos.append([0, 0, 0])
        for v in dirs:
            v = np.array(v, float)
            els.append("O")
            pos.append(v / np.linalg.norm(v) * d)
        pat = {"elements": ["Zr", "O"], "positions": np.array([[0, 0, 0], [d, 0, 0]], float)}
    elif top == "ring":
        m = int(rng.integers(2, 5)) * 2
        rad = d / (2 * np.sin(np.pi / m))
        for i in range(m):
            els.append("B" if i % 2 == 0 else "N")
            pos.append([rad * np.cos(2 * np.pi * i / m), rad * np.sin(2 * np.pi * i / m), 0])
        pat = {"elements": ["B", "N"], "positions": np.array([[0, 0, 0], [d, 0, 0]], float)}
    else:   # corner_units: O-Si-O units sharing the O corners along a zig-zag
        m = int(rng.integers(2, 5))
        ang = np.radians(float(rng.uniform(100, 140)))
        h, hx = d * np.cos(ang / 2), d * np.sin(ang / 2)
        x = 0.0
        els.append("O")
        pos.append([0, 0, 0])
        for i in range(m):
            els.append("Si")
            pos.append([x + hx, h if i % 2 == 0 else -h, 0])
            els.append("O")
            pos.append([x + 2 * hx, 0, 0])
            x += 2 * hx
        pat = {"elements": ["Si", "O", "O"], "positions": np.array([[0, h, 0], [-hx, 0, 0], [hx, 0, 0]], float)}
    pos = np.array(pos, float)
    pos = (pos - pos.mean(0)).dot(Rm.T)
    pat["positions"] = pat["positions"].dot(G.random_rotation(rng).T) + rng.uniform(-1, 1, 3)
    pat["cls"] = top
    need = G.diameter(pos) + 3.0
    cell = planted.make_cell(rng, case["cell"], need)
    origin = rng.uniform(0, 1, 3).dot(cell)
    allpos = [p + origin for p in pos]
    allels = list(els)
    for _ in range(int(rng.integers(0, 5))):       # bystanders
        for _ in range(30):
            p = rng.uniform(0, 1, 3).dot(cell)
            if planted.min_image_dist(cell, p, allpos) > 2.2:
                allpos.append(p)
                allels.append("Ar")
                break
    allpos = G.wrap(cell, np.array(allpos))
    order = rng.permutation(len(allels))
    kw = {}
    if rng.integers(2):
        # bonds and angles all over the structure (bystanders included): whatever is removed, the terms of the remaining atoms must
        # still join the same atoms afterwards - an atom "removed twice" shifts them twice
        from vmon.gen import atomsgen
        nat = len(allels)
        b = atomsgen.random_terms(rng, nat, 2, int(rng.integers(2, 2 * nat)))
        an = atomsgen.random_terms(rng, nat, 3, int(rng.integers(0, nat)))
        if b:
            kw.update(bonds=b, bond_types=[0] * len(b), bond_type_coeffs=["harmonic 1.0 1.5"])
        if an:
            kw.update(angles=an, angle_types=[0] * len(an), angle_type_coeffs=["harmonic 2.0 109.5"])
    S = Atoms(elements=[allels[i] for i in order], positions=allpos[order], cell=cell, charges=[1000.0 + i / 64.0 for i in range(len(allels))], **kw)
    return pat, S


def make_repl(rng, pat, kind):
    ppos = np.asarray(pat["positions"], float)
    pels = list(pat["elements"])
    n = len(pels)
    sub = {"Si": "Ge", "O": "S", "N": "P", "Zr": "Hf", "B": "Al"}
    if rng.integers(2):
        # substitutes whose symbols BEGIN with the symbol they replace (B -> Br, N -> Ni, O -> Os): another element all the same
        sub = {"Si": ["Sn", "S"][int(rng.integers(2))], "O": "Os", "N": "Ni", "Zr": "Zn", "B": "Br"}      # ... or that it begins with (Si -> S)
    els, pos = [], []
    if kind == "empty":
        pass
    elif kind == "identical":
        els, pos = list(pels), [p.copy() for p in ppos]
    elif kind == "substitute_all":
        els, pos = [sub[e] for e in pels], [p.copy() for p in ppos]
    elif kind in ("keep_first_replace_rest", "larger_keep_first"):
        els = [pels[0]] + [sub[e] for e in pels[1:]]
        pos = [p.copy() for p in ppos]
        if kind == "larger_keep_first":
            els.append("H")
            pos.append(ppos[0] + np.array([0.3, 0.9, 0.4]))
    elif kind == "keep_rest_replace_first":
        els = [sub[pels[0]]] + pels[1:]
        pos = [p.copy() for p in ppos]
    elif kind == "keep_last_only":
        els, pos = [pels[-1]], [ppos[-1].copy()]
    elif kind in ("nudge_first_replace_rest", "nudge_rest_replace_first"):
        # as keep_*, but the "kept" atoms are displaced by a small, clearly non-zero amount: same element, other coordinates,
        # so they are not common to both patterns and every selected match removes its own
        mag = replcase.NUDGES[int(rng.integers(len(replcase.NUDGES)))]
        v = rng.normal(size=3) if rng.integers(2) else np.array([1.0, 1.0, 1.0]) * rng.choice([-1, 1], 3)
        v = v / np.linalg.norm(v) * mag
        pos = [p.copy() for p in ppos]
        if kind == "nudge_first_replace_rest":
            els = [pels[0]] + [sub[e] for e in pels[1:]]
            pos[0] = pos[0] + v
        else:
            els = [sub[pels[0]]] + pels[1:]
            for i in range(1, n):
                pos[i] = pos[i] + v
    if kind in ("identical", "keep_first_replace_rest", "larger_keep_first", "keep_rest_replace_first", "keep_last_only") and rng.integers(3) == 0 and len(pos):
        # the replacement as another program wrote it: every coordinate carries the noise of the last printed digits (< 5e-7 A, either
        # sign, far below the 1e-5 A within which an atom is common to both patterns) - the same atoms are common as without it
        pos = [p + rng.uniform(-4e-7, 4e-7, 3) for p in pos]
        AS_WRITTEN[0] += 1
    order = rng.permutation(len(els))
    return {"kind": kind, "elements": [els[i] for i in order], "positions": np.array([pos[i] for i in order], float).reshape(-1, 3)}


AS_WRITTEN = [0]


def _judge_with_unknown_selection(ctx, st, case, S, obs, found, shared, shared_search, nrep, mm, w, label):
    """fraction < 1 and the selection itself was not observed. Sound whatever the code drew: an overlap error is wrong if no
    selection of the required size overlaps - or, when nothing at all was drawn between the search and the error (the random
    generators' states are unchanged), if some selection of that size is free of overlap, because the outcome then cannot
    depend on the selection; a returned structure must be explained by some selection of the required size."""
    import itertools
    st.count("calls_judged_without_seeing_the_draw")
    n = len(found)
    x = case["fraction"] * n
    ks = [k for k in range(n + 1) if abs(k - x) <= 0.5 + 1e-9]
    rs = [set(m) if (nrep == 0 or case["replace_all"]) else {idx for j, idx in enumerate(m) if j not in shared_search} for m in found]
    if n > 16:
        st.count("not_judged.too_many_matches_for_unknown_selection")
        return
    subsets = [c for k in ks for c in itertools.combinations(range(n), k)]

    def conflicts(c):
        return any(rs[a] & rs[b] for a in c for b in c if a < b)

    exc = obs["exception"]
    if exc is not None:
        if not isinstance(exc, mm.AtomsShouldNotBeDeletedTwice):
            ctx.fail(label + "replacement raised %s: %s" % (type(exc).__name__, str(exc)[:160]), witness=w)
        elif case["ignore"] or nrep == 0:
            ctx.fail(label + "the overlap error was raised although %s" % ("the caller asked to ignore overlaps" if case["ignore"] else "the replacement is empty"), witness=w)
        elif not any(conflicts(c) for c in subsets):
            ctx.fail(label + "the overlap error was raised although no selection of %s of the %d matches removes an atom twice" % (ks, n), witness=w)
        elif obs.get("drawn_after_search") is False and not all(conflicts(c) for c in subsets):
            free = next(c for c in subsets if not conflicts(c))
            ctx.fail(label + "the overlap error was raised before any selection was drawn (fraction %.3g of %d matches), although e.g. the selection %s removes no atom twice: "
                     "the error does not depend on the matches selected for replacement" % (case["fraction"], n, [found[i] for i in free]), witness=w)
        else:
            st.count("dedicated_error_raised")
            st.seen("outcome_class", "conflict/strict/nonempty")
        return
    out = obs["result"]
    in_ids = [float(c) for c in S.charges]
    kept = [float(c) for c in out.charges if float(c) >= 999]
    gone = {i for i, c in enumerate(in_ids) if c not in set(kept)}
    new_per_match = nrep if case["replace_all"] else nrep - len(shared)
    ok = False
    for c in subsets:
        if (case["ignore"] or nrep == 0 or not conflicts(c)) and set().union(*[rs[i] for i in c]) == gone and len(out) == len(S) - len(gone) + new_per_match * len(c):
            ok = True
            share = any(set(found[a]) & set(found[b]) for a in c for b in c if a < b)
            st.seen("outcome_class", "%s/%s/%s" % ("conflict" if conflicts(c) else ("share-only-retained" if share else "disjoint"), "ignore" if case["ignore"] else "strict", "empty" if nrep == 0 else "nonempty"))
            break
    if not ok or len(set(kept)) != len(kept):
        ctx.fail(label + "the returned structure (atoms %s gone, %d atoms) is not explained by replacing any %s of the %d matches without removing an atom twice" %
                 (sorted(gone), len(out), ks, n), witness=w)
    st.count("conservation_checked")


def _scripted_draw(case, S, P, pat, rep, mm, st):
    """a draw chosen by the check: among the occurrences a preliminary search reports, a subset of the size the fraction asks for
    whose removal sets are pairwise disjoint although other occurrences overlap ('script_free'), or one that contains an
    overlapping pair ('script_conflict'). Falls back to a real draw when no such subset exists."""
    import itertools
    n0 = len(events.LOG)
    try:
        pre = mm.find_pattern_in_structure(S, P, atol=0.05)
    except Exception:
        return "real"
    finally:
        del events.LOG[n0:]     # the preliminary search is not part of the judged history
    pre = [tuple(int(i) for i in m) for m in pre]
    k = round(case["fraction"] * len(pre))
    if k < 1 or len(pre) > 14:
        return "real"
    shared = replcase.shared_pairs(pat, rep)
    shared_search = set() if case["replace_all"] else set(shared.values())
    nrep = len(rep["elements"])
    rs = [set(m) if (nrep == 0 or case["replace_all"]) else {idx for j, idx in enumerate(m) if j not in shared_search} for m in pre]
    any_conflict = any(rs[a] & rs[b] for a in range(len(rs)) for b in range(a + 1, len(rs)))
    want_conflict = case["sample"] == "script_conflict"
    for comb in itertools.combinations(range(len(pre)), k):
        c = any(rs[a] & rs[b] for a in comb for b in comb if a < b)
        if c == want_conflict and (want_conflict or any_conflict):
            comb = list(comb)
            if case["s"] % 2:
                comb.reverse()
            st.count("scripted_draws_%s" % ("with_an_overlapping_pair" if want_conflict else "free_of_overlap_among_overlapping_occurrences"))
            return ("script", comb)
    return "real"


def judge_call(ctx, st, case, S, P, R, pat, rep, mm, label=""):
    """one real call with the given objects, judged against the harness's removal-set oracle -> share_any"""
    events.SCHEDULE["sample"] = case["sample"]
    kw = dict(atol=0.05, replace_all=case["replace_all"], replace_fraction=case["fraction"])
    if case["sample"].startswith("script") and case["fraction"] < 1.0:
        events.SCHEDULE["sample"] = _scripted_draw(case, S, P, pat, rep, mm, st)
    # the flag in the forms a caller may have at hand: omitted / Python bool / numpy bool (a comparison result) / 0 or 1
    form = case["s"] % 4
    if case["ignore"]:
        kw["ignore_atoms_should_not_be_deleted_twice"] = [True, True, np.bool_(True), 1][form]
    elif form:
        kw["ignore_atoms_should_not_be_deleted_twice"] = [None, False, np.bool_(False), 0][form]
    st.seen("flag_form", "%s/%s" % (case["ignore"], ["omitted-or-True", "bool", "numpy.bool_", "int"][form]))
    if case["s"] % 5 == 0:
        kw["verbose"] = True        # the diagnostics must not get in the way of the verdict
        st.count("replace_calls_with_verbose_output")
    obs = replcase.observe_replace(S, P, R, case["s"], **kw)
    st.count("replace_calls")
    w = {"case": {k: case[k] for k in ("topology", "repl", "cell", "replace_all", "ignore", "fraction", "sample")}, "elements": list(S.elements),
         "pattern_elements": pat["elements"], "replacement_elements": rep["elements"], "found": obs["found"], "selected": obs["selected"]}
    if obs["found"] is None:
        ctx.fail(label + "no search observed: %r" % (obs["exception"],), witness=w)
        return False, None, None, None, None, None, w
    found, sel = obs["found"], obs["selected"]
    shared = replcase.shared_pairs(pat, rep)
    shared_search = set() if case["replace_all"] else set(shared.values())
    nrep = len(rep["elements"])
    if sel is None or obs.get("selection_inferred"):
        # the draw was not seen at the site the harness can observe: judge by what must hold for whatever was drawn
        _judge_with_unknown_selection(ctx, st, case, S, obs, found, shared, shared_search, nrep, mm, w, label)
        return False, found, None, None, None, obs["exception"], w
    rsets = []
    for k in sel:
        if nrep == 0 or case["replace_all"]:
            rsets.append(set(found[k]))
        else:
            rsets.append({idx for j, idx in enumerate(found[k]) if j not in shared_search})
    conflict = any(rsets[a] & rsets[b] for a in range(len(rsets)) for b in range(a + 1, len(rsets)))
    share_any = any(set(found[sel[a]]) & set(found[sel[b]]) for a in range(len(sel)) for b in range(a + 1, len(sel)))
    expect_raise = conflict and not case["ignore"] and nrep > 0
    exc = obs["exception"]
    st.seen("outcome_class", "%s/%s/%s" % ("conflict" if conflict else ("share-only-retained" if share_any else "disjoint"), "ignore" if case["ignore"] else "strict", "empty" if nrep == 0 else "nonempty"))
    if expect_raise:
        st.count("expected_error")
        if exc is None:
            ctx.fail(label + "matches %s would remove atom(s) %s twice, but a structure was returned" %
                     ([found[k] for k in sel], sorted(set.union(*[rsets[a] & rsets[b] for a in range(len(rsets)) for b in range(a + 1, len(rsets))]))), witness=w)
        elif not isinstance(exc, mm.AtomsShouldNotBeDeletedTwice):
            ctx.fail(label + "overlapping removal raised %s instead of the dedicated error: %s" % (type(exc).__name__, str(exc)[:160]), witness=w)
        else:
            st.count("dedicated_error_raised")
    else:
        st.count("expected_no_error")
        if exc is not None:
            if isinstance(exc, mm.AtomsShouldNotBeDeletedTwice):
                ctx.fail(label + "the overlap error was raised although no atom would be removed twice (removal sets %s%s)" % ([sorted(r) for r in rsets], ", ignore flag set" if case["ignore"] else ""), witness=w)
            else:
                ctx.fail(label + "replacement raised %s: %s" % (type(exc).__name__, str(exc)[:160]), witness=w)
        else:
            out = obs["result"]
            removed = set().union(*rsets) if rsets else set()
            new_per_match = nrep if case["replace_all"] else nrep - len(shared)
            exp_n = len(S) - len(removed) + new_per_match * len(sel)
            if len(out) != exp_n:
                ctx.fail(label + "atoms not conserved: result has %d atoms, expected %d = %d - %d removed + %d inserted" % (len(out), exp_n, len(S), len(removed), new_per_match * len(sel)), witness=w)
            in_ids = [float(c) for c in S.charges]
            kept = [float(c) for c in out.charges if float(c) >= 999]
            if len(set(kept)) != len(kept) or set(in_ids) - set(kept) != {in_ids[i] for i in removed}:
                ctx.fail(label + "removed atoms %s differ from the union of the removal sets %s" % (sorted(in_ids.index(c) for c in set(in_ids) - set(kept)), sorted(removed)), witness=w)
            st.count("conservation_checked")
            # the structure's own terms: exactly those whose atoms all remain, still between the same atoms (atoms named by id)
            if len(set(kept)) == len(kept):
                for arrname, width in (("bonds", 2), ("angles", 3)):
                    before = np.asarray(getattr(S, arrname)).reshape(-1, width)
                    after = np.asarray(getattr(out, arrname)).reshape(-1, width)
                    if len(before) == 0:
                        continue
                    want = sorted(tuple(in_ids[int(i)] for i in t) for t in before if not any(int(i) in removed for i in t))
                    try:
                        got = sorted(tuple(float(out.charges[int(i)]) for i in t) for t in after)
                    except IndexError:
                        got = "an index beyond the last atom"
                    st.count("term_integrity_checked")
                    if len(sel) >= 2 and share_any:
                        st.count("term_integrity_checked_with_overlapping_matches")
                    if got != want:
                        ctx.fail(label + "%s of the remaining atoms are not what they were: now %s, before (atoms by id) %s" % (arrname, got if isinstance(got, str) else got[:4], want[:4]), witness=w)
    return share_any, found, sel, rsets, expect_raise, exc, w


def run_case(case, ctx):
    import mofun.mofun as mm
    rng = np.random.default_rng(case["s"])
    st = ctx.stats
    pat, S = build(rng, case)
    n_aw = AS_WRITTEN[0]
    rep = make_repl(rng, pat, case["repl"])
    if AS_WRITTEN[0] > n_aw:
        st.count("replacements_whose_common_atoms_differ_by_print_noise")
    from vmon.gen import patterns
    P, R = patterns.to_atoms(pat), replcase.rep_to_atoms(rep)
    if case["s"] % 3 == 1:
        # force-field type labels on both patterns (as patterns read from LAMMPS data files carry them): the search pattern's
        # and the replacement's differ for the same element - what the patterns share is decided by element and position
        P.atom_type_labels = ["%s_3" % e for e in P.atom_type_elements]
        if len(R):
            R.atom_type_labels = ["%s_R" % e for e in R.atom_type_elements]
        st.count("pattern_pairs_with_differing_type_labels")
    r = judge_call(ctx, st, case, S, P, R, pat, rep, mm)
    share_any, found, sel, rsets, expect_raise, exc, w = r
    if found is None:
        return
    st.seen("topology", case["topology"])
    st.seen("repl", case["repl"])
    # history: the SAME pattern objects are used again after the replacement pattern was changed in place (same atom
    # count, other elements -> other shared atoms); the verdict must follow the patterns as they are now
    same_len = ["keep_first_replace_rest", "keep_rest_replace_first", "substitute_all", "identical"]
    if case["repl"] in same_len and case["s"] % 2 == 0 and not case.get("_second"):
        kind2 = same_len[(same_len.index(case["repl"]) + 1 + case["s"] // 2 % 3) % 4]
        rep2 = make_repl(rng, pat, kind2)
        R2 = replcase.rep_to_atoms(rep2)
        for attr in ("positions", "atom_types", "atom_type_elements", "atom_type_masses", "atom_type_labels", "charges", "groups"):
            setattr(R, attr, getattr(R2, attr))
        judge_call(ctx, st, case, S, P, R, pat, rep2, mm, "second call, replacement pattern changed in place to %s: " % kind2)
        st.count("second_calls_with_mutated_pattern_objects")
    if share_any:
        ctx.nontrivial(case["s"])
        if len(S) <= 12:
            ctx.sample({"case": w["case"], "elements": w["elements"], "found": found, "selected": sel, "removal_sets": [sorted(r) for r in rsets],
                        "expected": "AtomsShouldNotBeDeletedTwice" if expect_raise else "no error", "observed": type(exc).__name__ if exc is not None else "structure returned"})


def requirements(stats, tier):
    need = []
    have = stats.sets.get("outcome_class", set())
    for c in ("conflict/strict/nonempty", "conflict/ignore/nonempty", "share-only-retained/strict/nonempty", "conflict/strict/empty", "disjoint/strict/nonempty"):
        if c not in have:
            need.append("outcome class %s not observed (have %s)" % (c, sorted(have)))
    if stats.get("dedicated_error_raised") < 30 or stats.get("conservation_checked") < 100:
        need.append("error raised %d times, conservation checked %d times" % (stats.get("dedicated_error_raised"), stats.get("conservation_checked")))
    if stats.get("term_integrity_checked_with_overlapping_matches") < (20 if tier == "quick" else 2000):
        need.append("structures with terms whose matches overlapped and a structure was returned: %d" % stats.get("term_integrity_checked_with_overlapping_matches"))
    if not stats.has("topology", "big_star"):
        need.append("no hub atom claimed by 128 or more matches observed")
    if stats.nseen("flag_form") < 8:
        need.append("forms of the ignore flag observed: %s" % sorted(stats.sets.get("flag_form", [])))
    if not stats.has("topology", "big_helix"):
        need.append("no search pattern of more than 256 atoms observed")
    if stats.get("pattern_pairs_with_differing_type_labels") < (50 if tier == "quick" else 5000):
        need.append("pattern pairs with differing type labels: %d" % stats.get("pattern_pairs_with_differing_type_labels"))
    if stats.get("replacements_whose_common_atoms_differ_by_print_noise") < (20 if tier == "quick" else 2000):
        need.append("replacements whose common atoms differ by print noise: %d" % stats.get("replacements_whose_common_atoms_differ_by_print_noise"))
    if stats.nseen("topology") < 5 or stats.nseen("repl") < len(REPLS):
        need.append("not all topologies / replacement kinds observed")
    return need
