"""C05 - inserted atoms land where the replacement pattern says, modulo the lattice."""
import numpy as np

from vmon import events
from vmon.checks.c04 import build_case
from vmon.gen import patterns, planted, replcase
from vmon.oracle import geometry as G

from vmon.oracle.util import elements_of, clone

PROPERTY = "C05"
RULE = ("Planted structures (all cell classes incl. every tilt-sign combination, copies straddling 0-3 faces, all pose "
        "classes, 12 search-pattern classes incl. symmetric, collinear, two-atom and single-atom ones) and replacement "
        "patterns whose new atoms reach up to 6 A outside the search pattern, so inserted atoms are frequently wrapped; "
        "and structures on a whole-number grid whose coordinates are held as integers (copies in the 24 orientations of the cube, "
        "an atom inserted off the grid, expected places from the construction). "
        "Correspondences are observed, not inferred: the matched tuple and its (unwrapped) positions come from the "
        "hooked search result, the inserted atoms from the hooked Atoms.extend call of that match. Oracle per replaced "
        "match: (search coordinates U replacement-only coordinates) must map onto (matched positions U inserted "
        "positions, each taken at the periodic image nearest the location predicted by the returned rotation) by one "
        "proper rigid motion with max residual <= atol*(2+4*R/l); every inserted atom has fractional coordinates in "
        "[0,1]; moving both patterns by the same rigid motion leaves the result unchanged as a multiset of (element, "
        "position mod lattice) where the statement pins it (search pattern without symmetry, or replacement-only atoms "
        "on the symmetry line/point). History: the returned structure is replicated, or one of its cell vectors is doubled "
        "(in place / by assignment), and a second replacement on it (replacement pattern -> search pattern) is judged the "
        "same way; replacement atoms displaced by 2e-5..0.08 A from a search atom of the same element are new atoms. Non-trivial: at least one inserted atom was wrapped by a lattice vector or the "
        "cell is triclinic; distinct by seed.")
ASSUMPTIONS = ["the periodic image of an inserted atom is chosen nearest to the location predicted with the rotation mofun returned; a wrong rotation then shows up as a failed rigid fit",
               "cases in which the found matches share atoms, or the search raises, are not judged here"]
ANCHOR_FUNCS = [("mofun/mofun.py", "replace_pattern_in_structure")]
REQUIRED_LINES = [("mofun/mofun.py", "new_atoms.translate(atom_positions[0])"), ("mofun/mofun.py", "new_atoms.positions = q.apply(new_atoms.positions)")]
JOBS = {"quick": 4, "thorough": 16}
REPLS = ["far_reaching", "larger_shared", "larger_disjoint", "equal_partial", "equal_substitution", "smaller_disjoint", "far_reaching", "nudged"]


def cases(tier, seed):
    rng = np.random.default_rng([5, seed])
    n = 600 if tier == "quick" else 80000
    out = []
    for j in range(n):
        out.append({"s": int(rng.integers(1 << 30)), "cell": planted.CELL_CLASSES[j % len(planted.CELL_CLASSES)], "pattern": (patterns.CLASSES + ["close_pair"])[(j // 2) % (len(patterns.CLASSES) + 1)],
                    "repl": REPLS[(j // 3) % len(REPLS)], "atol": [0.05, 0.2, 0.01][(j // 5) % 3], "replace_all": (j // 7) % 4 == 0, "joint_motion": j % 3 == 0,
                    "fraction": [1.0, 1.0, 0.5, 0.67, 0.34][(j // 4) % 5], "sample": ["reversed", "real", "first"][(j // 9) % 3]})
        if out[-1]["pattern"] == "close_pair":
            # two like atoms 0.12-0.19 A apart: at the larger tolerances one structure atom fits both places of a candidate
            out[-1]["atol"] = [0.2, 0.2, 0.5][j % 3]
    # a structure on a whole-number grid whose coordinates are held as integers (built by a script, an idealised lattice model)
    for j in range(12 if tier == "quick" else 600):
        out.append({"kind": "integer_grid", "s": int(rng.integers(1 << 30))})
    return out


CUBE_ROTATIONS = None


def _cube_rotations():
    global CUBE_ROTATIONS
    if CUBE_ROTATIONS is None:
        import itertools
        rots = []
        for perm in itertools.permutations(range(3)):
            for signs in itertools.product([1, -1], repeat=3):
                M = np.zeros((3, 3))
                for r in range(3):
                    M[r, perm[r]] = signs[r]
                if np.linalg.det(M) > 0:
                    rots.append(M)
        CUBE_ROTATIONS = rots
    return CUBE_ROTATIONS


def integer_grid_case(case, ctx):
    """copies of a three-atom pattern at whole-number coordinates in the 24 orientations of the cube, the positions handed over as an
    integer array; the replacement adds one atom at a place that is no grid point. Expected places come from the construction."""
    import mofun
    from mofun import Atoms
    rng = np.random.default_rng(case["s"])
    st = ctx.stats
    L = int(rng.integers(14, 22))
    ppos = np.array([[0, 0, 0], [int(rng.integers(1, 3)), 0, 0], [0, int(rng.integers(2, 4)), 0]], float)
    new_at = np.array([0.5, 0.25 + 0.5 * int(rng.integers(2)), 0.75])
    rots = _cube_rotations()
    els, pos, copies = [], [], []
    for _ in range(60):
        if len(copies) == int(rng.integers(2, 6)):
            break
        R = rots[int(rng.integers(len(rots)))]
        c = rng.integers(2, L - 2, 3).astype(float)
        cand = c + ppos.dot(R.T)
        if pos and min(np.abs(((np.array(pos)[:, None, :] - cand[None, :, :]) + L / 2) % L - L / 2).sum(-1).min(), 99) < 4:
            continue
        copies.append((c, R))
        els += ["C", "O", "N"]
        pos += [list(x) for x in cand]
    if not copies:
        return
    ip = np.array(pos) % L
    ip = np.array(np.round(ip), dtype=[np.int64, np.int32][case["s"] % 2])
    S = Atoms(elements=els, positions=np.array(ip, float), cell=np.diag([float(L)] * 3), charges=1000.0 + np.arange(len(els)) / 64.0)
    S.positions = ip          # whole numbers, held as integers
    P = Atoms(elements=["C", "O", "N"], positions=ppos.copy())
    Rp = Atoms(elements=["C", "O", "N", "F"], positions=np.vstack([ppos, new_at[None, :]]), charges=[-1.0, -2.0, -3.0, -4.0])
    w = {"kind": "integer_grid", "L": L, "copies": [[c.tolist(), R.tolist()] for c, R in copies], "pattern": ppos.tolist(), "new_atom": new_at.tolist()}
    try:
        out = mofun.replace_pattern_in_structure(S, P, Rp, atol=0.05)
    except Exception as e:
        if type(e).__name__ == "PostBroken":
            raise
        ctx.fail("replacement in a structure whose whole-number coordinates are held as integers raised %s: %s" % (type(e).__name__, str(e)[:160]), witness=w)
        return
    st.count("replacements_in_structures_whose_coordinates_are_held_as_integers")
    got = np.asarray(out.positions, float)[[i for i, e in enumerate(out.elements) if e == "F"]]
    want = np.array([c + R.dot(new_at) for c, R in copies]) % L
    if len(got) != len(want):
        ctx.fail("%d atoms inserted for %d copies on the integer grid" % (len(got), len(want)), witness=w)
        return
    for x in want:
        d = np.abs((got - x + L / 2) % L - L / 2).max(axis=1).min() if len(got) else 9.0
        if d > 1e-6:
            ctx.fail("no inserted atom at %s (modulo the lattice), where the replacement pattern puts it; nearest is %.4g away; inserted atoms at %s" %
                     (np.round(x, 4).tolist(), d, np.round(got, 4).tolist()[:4]), witness=w)
            break
    if len(got) and (got.min() < -1e-9 or got.max() > L + 1e-9):
        ctx.fail("an inserted atom lies outside the unit cell: %s" % np.round(got, 4).tolist()[:4], witness=w)
    ctx.nontrivial(["integer_grid", case["s"]])


def lever(pat_pos):
    """(R/l ingredients) l = min(axis length, distance of the orientation atom from the axis); None where not defined"""
    p = np.asarray(pat_pos, float)
    n = len(p)
    if n < 2:
        return None
    D = np.sqrt(((p[:, None, :] - p[None, :, :]) ** 2).sum(-1))
    i, j = np.unravel_index(np.argmax(D), D.shape)
    ax = p[j] - p[i]
    L = np.linalg.norm(ax)
    if n == 2:
        return L
    off = [np.linalg.norm((q - p[i]) - ax * np.dot(q - p[i], ax) / L ** 2) for q in p]
    return min(L, max(off)) if max(off) > 1e-6 else L


def lever_of(pp, a1, a2, o):
    if o is None:
        return None
    ax = pp[a2] - pp[a1]
    v = pp[o] - pp[a1]
    return float(np.linalg.norm(v - ax * np.dot(v, ax) / np.dot(ax, ax)))


def bound(atol, pat_pos, rep_pos):
    p = np.asarray(pat_pos, float)
    r = np.asarray(rep_pos, float).reshape(-1, 3)
    l = lever(p)
    Rmax = max([np.linalg.norm(x - p[k]) for x in r for k in range(len(p))] + [0.0])
    if l is None or l < 0.3:
        return atol * (2 + 4 * Rmax / 0.3)
    return atol * (2 + 4 * Rmax / l)


def judge_placements(ctx, st, case, pat, rep, S, P, R, obs, atol, label=""):
    """-> number of inserted atoms that were wrapped, or None"""
    cell = np.array(S.cell, float)
    found, sel = obs["found"], obs["selected"]
    shared = {} if case.get("replace_all") else replcase.shared_pairs(pat, rep)
    new_idx = [i for i in range(len(rep["elements"])) if i not in shared]
    ext = obs["extends"]
    w = {"case": {k: case.get(k) for k in ("cell", "pattern", "repl", "atol", "replace_all")}, "cell": np.round(cell, 5).tolist(), "found": found, "selected": sel,
         "search_positions": np.round(pat["positions"], 5).tolist(), "replacement_positions": np.round(rep["positions"], 5).tolist(), "replacement_elements": rep["elements"]}
    # where the inserted atoms are is read off the returned structure (they carry the replacement atoms' ids); each replaced match
    # is given the atoms nearest to where its rotation puts them - the statement asks that such atoms exist, not in which order
    # the matches were served or through which calls the atoms went in
    sel_obs, ext_obs = sel, ext
    sel, ext, why = _insertions_from_result(obs, R, found, sel, new_idx, shared, pat, rep, cell)
    if ext is None:
        ctx.fail("%s%s" % (label, why), witness=w)
        return None
    if sel_obs is None or obs.get("selection_inferred"):
        st.count("placements_judged_without_seeing_the_draw")
    # the insertion calls, where they were seen one per replaced match: the atoms identified with structure atoms must be the
    # common atoms of some replaced match, each match once (in whatever order)
    if ext_obs and len(ext_obs) == len(sel) and not case.get("replace_all"):
        want = sorted(sorted((int(ri), int(found[k][sj])) for ri, sj in shared.items()) for k in sel)
        got = sorted(sorted((int(a), int(b)) for a, b in e["index_map"].items()) for e in ext_obs)
        if got != want:
            ctx.fail("%sthe replacement atoms identified with structure atoms in the insertion calls are %s, the common atoms of the replaced matches are %s" % (label, got[:3], want[:3]), witness=w)
        for e in ext_obs:
            appended = [i for i in range(e["n_other"]) if i not in e["index_map"]]
            if sorted(appended) != sorted(new_idx):
                ctx.fail("%sreplacement atoms %s were inserted, the replacement-only atoms are %s" % (label, appended, new_idx), witness=w)
        st.count("insertion_calls_checked_against_the_common_atoms")
        # ... and one insertion call serves ONE match: the atoms it identifies with structure atoms and the place where it puts its
        # new atoms must belong to the same match
        if shared and new_idx:
            ppos_, rpos_ = np.asarray(pat["positions"], float), np.asarray(rep["positions"], float).reshape(-1, 3)
            for e in ext_obs:
                vals = sorted(int(v) for v in e["index_map"].values())
                k_map = [k for k in sel if sorted(int(found[k][sj]) for sj in shared.values()) == vals]
                if len(k_map) != 1 or e.get("other_positions") is None:
                    continue
                p = np.asarray(e["other_positions"], float)[new_idx[0]]
                d = {k: float(G.equal_mod_lattice(cell, (obs["quats"][k].apply(rpos_[new_idx[0]] - ppos_[0]) + np.asarray(obs["found_positions"][k], float)[0])[None, :], p[None, :])[0]) for k in sel}
                k_pos = min(d, key=d.get)
                ds = sorted(d.values())
                if k_pos != k_map[0] and (len(ds) < 2 or ds[1] - ds[0] > 0.3):
                    ctx.fail("%san insertion identifies its common atoms with those of match %s but places its new atoms at match %s" % (label, found[k_map[0]], found[k_pos]), witness=w)
                st.count("insertion_calls_whose_place_and_identified_atoms_were_compared")
    b0 = bound(atol, pat["positions"], rep["positions"])
    ppos = np.asarray(pat["positions"], float)
    rpos = np.asarray(rep["positions"], float).reshape(-1, 3)
    wrapped = 0
    for k, e in zip(sel, ext):
        b = b0
        m = found[k]
        x_match = np.asarray(obs["found_positions"][k], float)
        q = obs["quats"][k]
        ins = np.asarray(e["other_positions"], float)[new_idx] if new_idx else np.zeros((0, 3))
        if len(ins):
            fr = G.frac(cell, ins)
            if fr.min() < -1e-9 or fr.max() > 1 + 1e-9:
                ctx.fail("%san inserted atom lies outside the unit cell: fractional coordinates %s" % (label, np.round(fr[np.argmax(np.abs(fr - 0.5).max(1))], 6).tolist()), witness=w)
            # unwrap: image nearest to the location predicted with the returned rotation (anchor = first search atom)
            pred = q.apply(rpos[new_idx] - ppos[0]) + x_match[0]
            d = pred - ins
            shift = np.round(G.frac(cell, d))
            unwrapped = ins + shift.dot(cell)
            wrapped += int(np.any(shift != 0, axis=1).sum())
            st.count("inserted_atoms", len(ins))
            st.count("inserted_atoms_wrapped_by_lattice_vector", int(np.any(shift != 0, axis=1).sum()))
        else:
            unwrapped = np.zeros((0, 3))
        A = np.vstack([ppos, rpos[new_idx]]) if len(new_idx) else ppos
        B = np.vstack([x_match, unwrapped]) if len(new_idx) else x_match
        if len(A) == 1:
            res = 0.0
        else:
            _, _, _, res, _ = G.kabsch(A, B)
        st.count("placements_judged")
        # the tolerance is the worst case; what the alignment really has to absorb is how far THIS copy is from an exact image of the
        # pattern (its optimal-fit residual, zero for an exact copy): the same lever formula on that, three-fold, is the bound used
        b_atol = b
        if len(ppos) >= 2:
            _, _, _, dev, _ = G.kabsch(ppos, x_match)
            b = min(b_atol, 3 * bound(dev, pat["positions"], rep["positions"]) + 1e-6 * max(1.0, float(np.abs(B).max())))
            if b < b_atol:
                st.count("placements_judged_by_the_measured_deviation_of_the_copy")
        if not res <= b:
            # say which atom is off
            Rm, t, _, _, _ = G.kabsch(A, B)
            r_each = np.linalg.norm(A.dot(Rm.T) + t - B, axis=1)
            ctx.fail("%smatch %s: matched + inserted atoms are not a proper rigid image of search + replacement coordinates modulo the lattice: residual %.4g > bound %.4g (atol %.3g); worst atom %d of %d" %
                     (label, m, res, b, atol, int(np.argmax(r_each)), len(A)), witness=dict(w, match=m, inserted=np.round(ins, 5).tolist(), residuals=np.round(r_each, 5).tolist()))
    return wrapped


def _insertions_from_result(obs, R, found, sel, new_idx, shared, pat, rep, cell):
    """-> (selected matches, one record per selected match shaped like an observed Atoms.extend call, reason if impossible)"""
    out = obs["result"]
    if out is None or found is None:
        return None, None, "no result to read the insertions from"
    ppos = np.asarray(pat["positions"], float)
    rpos = np.asarray(rep["positions"], float).reshape(-1, 3)
    rid = [float(c) for c in R.charges]
    oc = [float(c) for c in out.charges]
    opos = np.asarray(out.positions, float)
    cand = list(range(len(found))) if sel is None else list(sel)
    if not new_idx:
        if sel is None:
            return None, None, "which matches were replaced cannot be told: nothing is removed and nothing is inserted per match"
        return cand, [{"n_other": len(rid), "index_map": {ri: found[k][sj] for ri, sj in shared.items()}, "other_positions": rpos.copy()} for k in cand], ""
    taken = {}
    for ri in new_idx:
        have = [i for i, c in enumerate(oc) if c == rid[ri]]
        if sel is not None and len(have) != len(cand):
            return None, None, "%d atoms were inserted for replacement atom %d, %d matches were replaced" % (len(have), ri, len(cand))
        if not have:
            continue
        pred = np.array([obs["quats"][k].apply(rpos[ri] - ppos[0]) + np.asarray(obs["found_positions"][k], float)[0] for k in cand])
        cost = np.array([[float(G.equal_mod_lattice(cell, pred[a][None, :], opos[i][None, :])[0]) for i in have] for a in range(len(cand))])
        from scipy.optimize import linear_sum_assignment
        rows, cols = linear_sum_assignment(cost)
        for a, b in zip(rows, cols):
            taken.setdefault(cand[a], {})[ri] = opos[have[b]]
    chosen = [k for k in cand if len(taken.get(k, {})) == len(new_idx)]
    if sel is not None and len(chosen) != len(cand):
        return None, None, "not every replaced match received all of its new atoms"
    if sel is None and any(0 < len(taken.get(k, {})) < len(new_idx) for k in cand):
        return None, None, "some match received only part of the replacement's new atoms"
    recs = []
    for k in chosen:
        op = rpos.copy()
        for ri in new_idx:
            op[ri] = taken[k][ri]
        recs.append({"n_other": len(rid), "index_map": {ri: found[k][sj] for ri, sj in shared.items()}, "other_positions": op})
    return chosen, recs, ""


def result_multiset(out, n_in):
    els = elements_of(out)
    return [(els[i], np.asarray(out.positions[i], float)) for i in range(len(out)) if float(out.charges[i]) < 0]


def same_multiset(cell, a, b, tol):
    if sorted(e for e, _ in a) != sorted(e for e, _ in b):
        return False, "elements differ"
    used = set()
    for e, p in a:
        best, bi = None, None
        for i, (e2, p2) in enumerate(b):
            if i in used or e2 != e:
                continue
            d = float(G.equal_mod_lattice(cell, p[None, :], p2[None, :])[0])
            if best is None or d < best:
                best, bi = d, i
        if best is None or best > tol:
            return False, "an inserted %s atom at %s has no counterpart within %.3g (nearest %.3g)" % (e, np.round(p, 4).tolist(), tol, best if best is not None else -1)
        used.add(bi)
    return True, ""


def run_case(case, ctx):
    if case.get("kind") == "integer_grid":
        return integer_grid_case(case, ctx)
    rng = np.random.default_rng(case["s"])
    st = ctx.stats
    pat, rep, built, S = build_case(rng, case, ncopies=int(rng.integers(1, 4)) if case.get("fraction", 1.0) >= 1.0 else int(rng.integers(2, 6)))
    atol = case["atol"]
    if len(rep["elements"]) == 0:
        return
    # patterns loaded from a CIF / LAMMPS file carry the box they were drawn in; it says nothing about the structure's lattice
    pkw = {}
    if case["s"] % 5 == 3:
        box = np.diag(rng.uniform(5.0, 7.5, 3)) if rng.integers(3) else np.array(S.cell, float) * 0.5
        pkw = {"cell": box}
        st.count("replacements_whose_patterns_carry_their_own_cell")
    P, R = patterns.to_atoms(pat, **({"cell": pkw["cell"] * 1.5} if pkw and rng.integers(2) else {})), replcase.rep_to_atoms(rep, **pkw)
    f = case.get("fraction", 1.0)
    events.SCHEDULE["sample"] = case.get("sample", "real")
    kw = {} if f >= 1.0 else {"replace_fraction": f}
    if case["s"] % 4 == 0:
        hs = patterns.valid_hint_sets(pat, rng, k=2)
        h = hs[int(rng.integers(len(hs)))]
        # only well-conditioned hints here (the ill-conditioned ones are C03's known finding): placement must then be as good
        if h != (None, None, None) and all(G.anchored_residual(pat["positions"], np.asarray(pat["positions"]) + 0.0, h) < 1e-9 for _ in (0,)):
            a1, a2, o = G.complete_hints(pat["positions"], h)
            pp = np.asarray(pat["positions"], float)
            L = np.linalg.norm(pp[a2] - pp[a1])
            lev = lever_of(pp, a1, a2, o)
            if L > 0.7 * G.diameter(pp) and (lev is None or lev > 0.8):
                kw.update(axisp1_idx=h[0], axisp2_idx=h[1], opoint_idx=h[2])
                st.count("replacements_with_hints")
    positional = case["s"] % 6 == 2
    if positional:
        st.count("replace_calls_with_positional_arguments")
    obs = replcase.observe_replace(S, P, R, case["s"], _positional=positional, atol=atol, replace_all=case["replace_all"], **kw)
    st.count("replace_calls")
    for msg in obs.get("plumbing") or []:
        ctx.fail(msg, key="option_plumbing", witness={"case": {k: case.get(k) for k in ("cell", "pattern", "repl", "atol")}})
    if obs.get("plumbing") is not None and obs["found"] is not None:
        st.count("replace_calls_whose_inner_search_options_were_observed")
    if f < 1.0 and obs["selected"] is not None and len(obs["selected"]) >= 2:
        st.count("partial_replacements_with_two_or_more_matches")
        if list(obs["selected"]) != sorted(obs["selected"]):
            st.count("partial_replacements_selected_out_of_found_order")
    if obs["found"] is None or obs["exception"] is not None or replcase.matches_overlap(obs["found"]):
        st.count("not_judged.%s" % ("raised" if obs["exception"] is not None else "overlap_or_no_search"))
        return
    wrapped = judge_placements(ctx, st, case, pat, rep, S, P, R, obs, atol)
    st.seen("cell_class", case["cell"])
    st.seen("pattern_class", pat["cls"])
    for cr in built["crossings"]:
        st.seen("faces_crossed", cr)
    # result positions agree with what was handed to extend (the structure really contains them)
    out = obs["result"]
    cell = np.array(S.cell, float)
    ins_out = [np.asarray(out.positions[i], float) for i in range(len(out)) if float(out.charges[i]) < 0]
    if ins_out:
        fr = G.frac(cell, np.array(ins_out))
        if fr.min() < -1e-9 or fr.max() > 1 + 1e-9:
            ctx.fail("an inserted atom of the returned structure lies outside the unit cell (fractional %s)" % np.round(fr[np.argmax(np.abs(fr - 0.5).max(1))], 6).tolist(),
                     witness={"case": case, "cell": np.round(cell, 5).tolist()})
    # joint rigid motion of both patterns
    if case["joint_motion"] and obs["selected"]:
        sym = None
        cont = pat["continuous_symmetry"]
        shared = {} if case["replace_all"] else replcase.shared_pairs(pat, rep)
        new_idx = [i for i in range(len(rep["elements"])) if i not in shared]
        ppos = np.asarray(pat["positions"], float)
        rpos = np.asarray(rep["positions"], float).reshape(-1, 3)
        pinned = False
        if cont is None:
            if len(pat["elements"]) <= 7 and len(G.symmetry_perms(pat["elements"], ppos, tol=max(4 * atol, 1e-3))) == 1:
                pinned = True
        elif cont == "point":
            pinned = all(np.linalg.norm(rpos[i] - ppos[0]) < 1e-9 for i in new_idx)
        else:
            ax = ppos[-1] - ppos[0]
            pinned = all(np.linalg.norm(np.cross(rpos[i] - ppos[0], ax)) / np.linalg.norm(ax) < 1e-9 for i in new_idx)
            # a symmetric line pattern (O=C=O, N-N) can also be matched end over end
            if pinned and len(G.symmetry_perms(pat["elements"], ppos, tol=max(4 * atol, 1e-3))) > 1:
                pinned = False
        if pinned:
            Rm = G.random_rotation(rng)
            t = rng.uniform(-4, 4, 3)
            P2, R2 = clone(P), clone(R)
            P2.positions = ppos.dot(Rm.T) + t
            R2.positions = rpos.dot(Rm.T) + t
            events.SCHEDULE["sample"] = case.get("sample", "real")
            obs2 = replcase.observe_replace(S, P2, R2, case["s"], atol=atol, replace_all=case["replace_all"], **kw)
            if f < 1.0 and (obs2.get("selected") is None or set(obs2["selected"]) != set(obs["selected"])):
                st.count("joint_motion_not_judged_other_matches_drawn")
            elif obs2["exception"] is None and obs2["result"] is not None:
                ok, why = same_multiset(cell, result_multiset(out, len(S)), result_multiset(obs2["result"], len(S)), 2 * bound(atol, ppos, rpos))
                if not ok:
                    ctx.fail("moving search and replacement pattern together by a rigid motion changes the result: %s" % why,
                             witness={"case": case, "rotation": np.round(Rm, 5).tolist(), "translation": np.round(t, 4).tolist()})
                st.count("joint_motion_relations_checked")
            else:
                st.count("joint_motion_not_judged")
        else:
            st.count("joint_motion_not_pinned_by_statement")
    # history: the RETURNED structure gets another cell (replicated, or a cell vector doubled where it is) and is the
    # input of a second replacement (the replacement pattern is searched and turned back into the search pattern)
    if obs["selected"] and case["s"] % 3 != 1:
        from vmon.contracts import c01_domain
        how = ["replicate", "cell_vector_doubled_in_place", "cell_assigned"][int(rng.integers(3))]
        k = int(rng.integers(3))
        if how == "replicate":
            S2 = out.replicate(tuple(2 if i == k else 1 for i in range(3)))
        elif how == "cell_vector_doubled_in_place":
            out.cell[k] *= 2
            S2 = out
        else:
            newcell = np.array(out.cell, float)
            newcell[k] = newcell[k] * 2.0
            out.cell = newcell
            S2 = out
        pat2 = {"elements": list(rep["elements"]), "positions": np.asarray(rep["positions"], float).reshape(-1, 3), "continuous_symmetry": None, "cls": "replacement:" + rep["kind"]}
        rep2 = {"elements": list(pat["elements"]), "positions": np.asarray(pat["positions"], float), "kind": "back_to_search_pattern"}
        P2, R2 = patterns.to_atoms(pat2, id_base=-300.0), replcase.rep_to_atoms(rep2, id_base=-200.0)
        if c01_domain(S2, P2, atol):
            events.SCHEDULE["sample"] = "real"
            obs2 = replcase.observe_replace(S2, P2, R2, case["s"] + 1, atol=atol, replace_all=case["replace_all"])
            if obs2["found"] and obs2["exception"] is None and not replcase.matches_overlap(obs2["found"]):
                case2 = dict(case, pattern=pat2["cls"], repl="back_to_search_pattern")
                w2 = judge_placements(ctx, st, case2, pat2, rep2, S2, P2, R2, obs2, atol, label="second replacement on the returned structure after %s: " % how)
                if w2 is not None:
                    st.count("second_replacements_judged")
                    st.seen("history", how)
            else:
                st.count("second_replacement_not_judged")
        else:
            st.count("second_replacement_out_of_domain")
    if wrapped is not None and (wrapped > 0 or case["cell"].startswith("tri")):
        ctx.nontrivial(case["s"])
    if wrapped and len(S) <= 18:
        ctx.sample({"case": {k: case[k] for k in ("cell", "pattern", "repl", "atol", "replace_all")}, "cell": np.round(cell, 3).tolist(), "found": obs["found"],
                    "inserted_atoms_wrapped": wrapped, "replacement_elements": rep["elements"]})


def requirements(stats, tier):
    need = []
    if stats.get("replacements_in_structures_whose_coordinates_are_held_as_integers") < (8 if tier == "quick" else 400):
        need.append("replacements in structures whose coordinates are held as integers: %d" % stats.get("replacements_in_structures_whose_coordinates_are_held_as_integers"))
    if stats.get("placements_judged") < (500 if tier == "quick" else 60000):
        need.append("too few placements judged: %d" % stats.get("placements_judged"))
    if stats.get("inserted_atoms_wrapped_by_lattice_vector") < (150 if tier == "quick" else 20000):
        need.append("too few wrapped insertions: %d" % stats.get("inserted_atoms_wrapped_by_lattice_vector"))
    if stats.nseen("cell_class") < len(planted.CELL_CLASSES) or stats.nseen("pattern_class") < len(patterns.CLASSES):
        need.append("not all cell / pattern classes observed")
    if stats.nseen("faces_crossed") < 4:
        need.append("copies straddling 0..3 faces not all observed")
    if stats.get("event.sample") and stats.get("partial_replacements_selected_out_of_found_order") < (10 if tier == "quick" else 400):
        need.append("partial replacements whose selection order differs from the found order: %d" % stats.get("partial_replacements_selected_out_of_found_order"))
    if stats.get("second_replacements_judged") < (60 if tier == "quick" else 8000) or stats.nseen("history") < 3:
        need.append("second replacements on a returned structure whose cell was changed: %d judged, histories %s" %
                    (stats.get("second_replacements_judged"), sorted(stats.sets.get("history", []))))
    if stats.get("replacements_whose_patterns_carry_their_own_cell") < (50 if tier == "quick" else 8000):
        need.append("replacements whose patterns carry a cell of their own: %d" % stats.get("replacements_whose_patterns_carry_their_own_cell"))
    if stats.get("replace_calls_with_positional_arguments") < (50 if tier == "quick" else 8000):
        need.append("replacements called with every option by position: %d" % stats.get("replace_calls_with_positional_arguments"))
    if stats.get("joint_motion_relations_checked") < (40 if tier == "quick" else 6000):
        need.append("joint-motion relation checked only %d times" % stats.get("joint_motion_relations_checked"))
    return need
