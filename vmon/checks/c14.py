"""C14 - elements inferred from masses are the nearest element within tolerance."""
import io

import numpy as np

PROPERTY = "C14"
RULE = ("Exhaustive over the mass table: for every tolerance in {0.01,0.1,0.5} every tabulated mass, every point "
        "tol-/+1e-6 away from each element towards each neighbour in mass order, midpoints -/+1e-6 between neighbours, "
        "non-atomic masses below the lightest, in every gap wider than 2*tol and above the heaviest; each through the "
        "real guess_elements_from_masses (postcondition contract + independent nearest-element oracle), singly and in "
        "batches, and end-to-end through save_lmpdat/load_lmpdat (all elements, random subsets, subsets with one "
        "non-atomic mass); the same mass asked with several tolerances in turn, loosest first, "
        "directly and through load_lmpdat. A case is non-trivial if at least one mass in it is not an exact table mass; distinct by "
        "(kind, tolerance, masses).")
ASSUMPTIONS = ["ATOMIC_MASSES is the property's given data", "boundary points exactly at tolerance are never generated (floating point)"]
ANCHOR_FUNCS = [("mofun/helpers.py", "guess_elements_from_masses"), ("mofun/atoms.py", "Atoms.load_lmpdat")]
REQUIRED_LINES = [("mofun/atoms.py", "atom_type_elements = [str(i + 1) for i in range(len(masses))]")]
JOBS = {"quick": 2, "thorough": 8}
EPS = 1e-6
TOLS = [0.01, 0.1, 0.5]


def exhaustive(tier):
    return True


def _table():
    from mofun.atomic_masses import ATOMIC_MASSES
    return dict(ATOMIC_MASSES)


def expected(m, tol, tab):
    """-> (set of acceptable elements, or None if the call must raise)"""
    d = {e: abs(m - mm) for e, mm in tab.items()}
    best = min(d.values())
    if not best < tol:
        return None
    return {e for e, v in d.items() if v <= best + 1e-12}


def points(tol, tab):
    """[(class, mass)] the exhaustive boundary set for one tolerance"""
    s = sorted(set(tab.values()))
    pts = [("exact", m) for m in tab.values()]
    for lo, hi in zip(s, s[1:]):
        mid = (lo + hi) / 2
        pts += [("midpoint-", mid - EPS), ("midpoint+", mid + EPS)]
        pts += [("lo+tol-", lo + tol - EPS), ("lo+tol+", lo + tol + EPS), ("hi-tol-", hi - tol - EPS), ("hi-tol+", hi - tol + EPS)]
        if hi - lo > 2 * tol:
            pts += [("gap", lo + tol + (hi - lo - 2 * tol) / 2)]
    pts += [("below", s[0] - tol - EPS), ("below", s[0] - tol + EPS), ("below", 0.1), ("below", 0.5), ("below", max(1e-3, s[0] / 2))]
    pts += [("above", s[-1] + tol - EPS), ("above", s[-1] + tol + EPS), ("above", 400.0), ("above", 1700.0)]
    return [(c, float(m)) for c, m in pts if m > 0]


def cases(tier, seed):
    tab = _table()
    out = []
    for tol in TOLS:
        pts = points(tol, tab)
        for i in range(0, len(pts), 60):
            out.append({"kind": "direct", "tol": tol, "points": pts[i:i + 60]})
    rng = np.random.default_rng([14, seed])
    els = list(tab)
    # the same masses asked again with other tolerances in one process, loosest first: an answer must not outlive its tolerance
    for i in range(0, len(els), 15):
        out.append({"kind": "tolerance_history", "elements": els[i:i + 15], "tols": [[0.5, 0.1, 0.01, 0.1, 0.5], [0.5, 0.01, 0.1], [0.01, 0.5, 0.1]][(i // 15) % 3],
                    "via_file": (i // 15) % 2 == 1})
    out.append({"kind": "file_all", "tol": 0.1, "atom_format": "full"})
    out.append({"kind": "file_all", "tol": 0.1, "atom_format": "atomic"})
    out.append({"kind": "file_all", "tol": 0.01, "atom_format": "full"})
    nfile = 40 if tier == "quick" else 30000
    for i in range(nfile):
        k = int(rng.integers(1, 9)) if i % 7 else int(rng.integers(10, 15))      # now and then a file with two-digit type numbers
        chosen = [els[j] for j in rng.choice(len(els), size=k, replace=False)]
        tol = float(rng.choice([0.01, 0.1, 0.5]))
        mode = ["plain", "perturbed", "one_nonatomic", "default_tol", "several_nonatomic", "double_hit"][i % 6]
        if mode == "double_hit":
            tol = [0.5, 0.1][i // 6 % 2]
        out.append({"kind": "file", "tol": tol, "elements": chosen, "mode": mode, "s": int(rng.integers(1 << 30)),
                    "comments": bool(rng.integers(2)), "atom_format": ["full", "atomic"][int(rng.integers(2))]})
    return out


_CALLS = [0]


def _call(masses, tol):
    import mofun.helpers as mh
    try:
        _CALLS[0] += 1
        if _CALLS[0] % 2:
            return mh.guess_elements_from_masses(masses, tol), None          # by position, documented order
        return mh.guess_elements_from_masses(masses, max_delta=tol), None
    except Exception as e:
        if type(e).__name__ == "PostBroken":
            raise
        return None, e


def run_case(case, ctx):
    tab = _table()
    st = ctx.stats
    if case["kind"] == "direct":
        tol = case["tol"]
        nontriv = False
        for cls, m in case["points"]:
            exp = expected(m, tol, tab)
            got, exc = _call([m], tol)
            st.count("direct.single_calls")
            st.seen("point_class", "%s@%g" % (cls, tol))
            if cls != "exact":
                nontriv = True
            if exp is None:
                st.count("direct.expected_raise")
                if exc is None:
                    ctx.fail("mass %r with tolerance %g is not within tolerance of any element but %r was returned" % (m, tol, got),
                             witness={"mass": m, "tol": tol, "got": got})
            else:
                st.count("direct.expected_element")
                if exc is not None:
                    ctx.fail("mass %r is within %g of %s but the guess raised %s" % (m, tol, sorted(exp), type(exc).__name__), witness={"mass": m, "tol": tol})
                elif got[0] not in exp:
                    ctx.fail("mass %r with tolerance %g -> %s, nearest element is %s" % (m, tol, got[0], sorted(exp)), witness={"mass": m, "tol": tol, "got": got[0]})
        # batch: all points that have an element, in one call, must give the same answers
        good = [m for _, m in case["points"] if expected(m, tol, tab) is not None]
        if good:
            got, exc = _call(good, tol)
            st.count("direct.batch_calls")
            if exc is not None:
                ctx.fail("batch of %d in-tolerance masses raised %s" % (len(good), type(exc).__name__), witness={"masses": good[:5], "tol": tol})
            elif len(got) != len(good) or any(g not in expected(m, tol, tab) for g, m in zip(got, good)):
                ctx.fail("batch result differs from per-mass nearest elements", witness={"masses": good[:5], "got": list(got)[:5], "tol": tol})
        if nontriv:
            ctx.nontrivial(["direct", tol, [m for _, m in case["points"]]])
        ctx.sample({"kind": "direct", "tol": tol, "first_points": case["points"][:4]})
        return

    from mofun import Atoms
    if case["kind"] == "tolerance_history":
        offs = [0.3, -0.3, 0.05, -0.05, 0.004]
        for e in case["elements"]:
            for off in offs:
                m = float("%10.6f" % (tab[e] + off))
                if m <= 0:
                    continue
                for tol in case["tols"]:
                    exp = expected(m, tol, tab)
                    if case["via_file"]:
                        a = Atoms(atom_types=[0], positions=[[0.0, 0.0, 0.0]], atom_type_elements=["X"], atom_type_masses=[m], atom_type_labels=["t0"], cell=np.eye(3) * 9)
                        f = io.StringIO()
                        a.save_lmpdat(f)
                        text = "\n".join(l.split("#")[0].rstrip() if "#" in l else l for l in f.getvalue().split("\n"))
                        got = list(Atoms.load_lmpdat(io.StringIO(text), guess_atol=tol).atom_type_elements)
                        ok = (got == ["1"]) if exp is None else (got[0] in exp)
                    else:
                        got, exc = _call([m], tol)
                        ok = (exc is not None) if exp is None else (exc is None and got[0] in exp)
                    st.count("history.guesses")
                    if exp is None:
                        st.count("history.expected_no_element")
                    if not ok:
                        ctx.fail("mass %r asked with tolerances %s in turn: at tolerance %g the answer is %r, the nearest-element rule gives %s" %
                                 (m, case["tols"], tol, got, "no element" if exp is None else sorted(exp)), witness={"mass": m, "tolerances": case["tols"], "tol": tol, "via_file": case["via_file"]})
        ctx.nontrivial(["tolerance_history", case["elements"][0], case["via_file"]])
        return
    if case["kind"] == "file_all":
        elements = list(tab)
        masses = [tab[e] for e in elements]
        mode = "plain"
        comments = True
    else:
        elements = list(case["elements"])
        masses = [tab[e] for e in elements]
        mode = case["mode"]
        comments = case["comments"]
        rng = np.random.default_rng(case["s"])
        s = sorted(set(tab.values()))
        if mode == "perturbed":
            for i, m in enumerate(masses):
                others = [abs(m - x) for x in s if x != m]
                room = min(min(others) / 2 if others else 1.0, case["tol"]) * 0.9
                masses[i] = m + float(rng.uniform(-room, room))
        elif mode == "double_hit":
            # a mass that lies within the tolerance of TWO tabulated elements (Cm / Bk are both 247; at 0.5 also Co / Ni, Ar / K,
            # Te / I midpoints) next to a mass that belongs to no element: the second one still decides the fallback
            twin = 247.0 if case["tol"] < 0.5 else float(rng.choice([247.0, 58.81, 39.52, 127.25]))
            masses[0] = twin
            masses.append(float(rng.choice([13.5, 0.3, 500.0])))
            elements = elements + ["X"]
            j = int(rng.integers(len(masses)))
            masses[0], masses[j] = masses[j], masses[0]
            st.count("file.mass_within_tolerance_of_two_elements_beside_a_non_atomic_mass")
        elif mode in ("one_nonatomic", "several_nonatomic"):
            gaps = [(lo, hi) for lo, hi in zip(s, s[1:]) if hi - lo > 2 * case["tol"] + 2e-3]
            # several: coarse-grained beads / united atoms next to real elements - two or more masses that belong to no element
            which = [int(rng.integers(len(masses)))] if mode == "one_nonatomic" else [int(x) for x in rng.choice(len(masses), size=min(len(masses), int(rng.integers(2, 4))), replace=False)]
            for j in which:
                lo, hi = gaps[int(rng.integers(len(gaps)))]
                masses[j] = (lo + hi) / 2 if rng.integers(2) else float(rng.choice([0.3, 350.0, lo + case["tol"] + 1e-3]))
            if len(which) >= 2:
                st.count("file.several_masses_outside_tolerance")
    n = len(elements)
    tol = case["tol"]
    a = Atoms(atom_types=list(range(n)), positions=[[i * 1.5, 0.0, 0.0] for i in range(n)], atom_type_elements=elements,
              atom_type_masses=masses, atom_type_labels=["t%d" % i for i in range(n)], cell=np.eye(3) * (1.5 * n + 5))
    f = io.StringIO()
    a.save_lmpdat(f, atom_format=case["atom_format"])
    text = f.getvalue()
    if not comments:
        text = "\n".join(l.split("#")[0].rstrip() if "#" in l else l for l in text.split("\n"))
    if case.get("s", 0) % 4 == 1 and "\nMasses\n" in text:
        # the masses in exponent notation (%e / %E, as another program's writer may print them): the same numbers
        head, rest = text.split("\nMasses\n", 1)
        lines = rest.split("\n")
        k = 1
        while k < len(lines) and lines[k].strip():
            tok = lines[k].split()
            tok[1] = ("%.8e" if case["s"] % 8 == 1 else "%.8E") % float(tok[1])
            lines[k] = " ".join(tok)
            k += 1
        text = head + "\nMasses\n" + "\n".join(lines)
        st.count("files_with_masses_in_exponent_notation")
    if case.get("s", 0) % 3 == 0 and "\nMasses\n" in text:
        # the unit (or, as LAMMPS' write_data does for other sections, a style) named behind the section keyword
        text = text.replace("\nMasses\n", "\nMasses  # g/mol\n", 1).replace("\nAtoms\n", "\nAtoms # %s\n" % case["atom_format"], 1)
        st.count("files_with_a_comment_behind_the_section_keywords")
    # the masses as printed are what the reader sees
    printed = [float("%10.6f" % m) for m in masses]
    kw = {"atom_format": case["atom_format"]}
    if mode != "default_tol":
        kw["guess_atol"] = tol
    else:
        tol = 0.1   # documented default of load_lmpdat
    try:
        if case.get("s", 1) % 2 and "guess_atol" in kw:
            b = Atoms.load_lmpdat(io.StringIO(text), kw["atom_format"], kw["guess_atol"])      # by position, documented order
            st.count("files_loaded_with_positional_options")
        elif case.get("s", 1) % 4 == 2:
            # the generic entry point, documented to pass its keyword arguments on to the reader
            b = Atoms.load(io.StringIO(text), filetype="lmpdat", **kw)
            st.count("files_loaded_through_Atoms_load_with_options")
        else:
            b = Atoms.load_lmpdat(io.StringIO(text), **kw)
    except Exception as e:
        if type(e).__name__ == "PostBroken":
            raise
        ctx.fail("load_lmpdat of a file with masses %s (tolerance %g) raised %s: %s - masses outside the tolerance must make all types fall back to type numbers, the others get their element" %
                 (printed, tol, type(e).__name__, str(e)[:120]), witness={"masses": printed, "tol": tol, "mode": mode})
        return
    st.count("file.loads")
    st.seen("file_mode", "%s/%s/%s" % (case["kind"], mode, "comments" if comments else "nocomments"))
    exps = [expected(m, tol, tab) for m in printed]
    got = list(b.atom_type_elements)
    # every documented route to the reader with the same options reads the same elements
    for route in ("Atoms.load(f, filetype='lmpdat', **options)", "Atoms.load_lmpdat(f, **options)"):
        try:
            b2 = Atoms.load(io.StringIO(text), filetype="lmpdat", **kw) if route.startswith("Atoms.load(") else Atoms.load_lmpdat(io.StringIO(text), **kw)
            if list(b2.atom_type_elements) != got:
                ctx.fail("%s reads the elements %s, another route with the same options (tolerance %g) read %s" % (route, list(b2.atom_type_elements), tol, got),
                         witness={"masses": printed, "tol": tol, "options": {k: str(v) for k, v in kw.items()}})
            st.count("file.routes_compared")
        except Exception as e:
            if type(e).__name__ == "PostBroken":
                raise
            ctx.fail("%s raised %s: %s although another route read the file" % (route, type(e).__name__, str(e)[:120]), witness={"masses": printed, "tol": tol})
    if any(e is None for e in exps):
        st.count("file.fallback_expected")
        want = [str(i + 1) for i in range(n)]
        if got != want:
            ctx.fail("a mass outside tolerance must make all types fall back to type numbers %s, got %s" % (want, got),
                     witness={"masses": printed, "tol": tol, "got": got})
    else:
        st.count("file.elements_expected")
        if len(got) != n or any(g not in e for g, e in zip(got, exps)):
            wrong = [(printed[i], got[i], sorted(exps[i])) for i in range(min(n, len(got))) if got[i] not in exps[i]]
            ctx.fail("elements read back from masses differ from nearest elements: %s" % wrong[:6], witness={"masses": printed, "tol": tol, "got": got})
        if mode == "plain" and case["kind"] == "file_all":
            # every element whose mass is distinguishable survives unchanged
            for e, g, ex in zip(elements, got, exps):
                if len(ex) == 1 and g != e:
                    ctx.fail("element %s did not survive a write/read cycle (came back %s)" % (e, g), witness={"element": e, "got": g, "tol": tol})
    # history: the loaded structure's labels are edited where they are (force-field types assigned); the elements inferred from
    # the masses are another table and must stay what they were
    before = [str(x) for x in b.atom_type_elements]
    try:
        for i in range(len(b.atom_type_labels)):
            b.atom_type_labels[i] = "X%d" % i
        st.count("file.labels_edited_in_place")
        if [str(x) for x in b.atom_type_elements] != before:
            ctx.fail("editing atom_type_labels of the loaded structure in place changed its atom_type_elements to %s (inferred from the masses: %s)" %
                     ([str(x) for x in b.atom_type_elements][:6], before[:6]), witness={"masses": printed, "tol": tol, "comments": comments})
    except (TypeError, ValueError):
        st.count("file.labels_not_editable_in_place")
    ctx.nontrivial(["file", case.get("mode"), tol, printed])
    ctx.sample({"kind": case["kind"], "mode": mode, "tol": tol, "masses": printed[:6], "read_back": got[:6]})


def requirements(stats, tier):
    need = []
    if stats.get("file.routes_compared") < (60 if tier == "quick" else 5000):
        need.append("reader routes compared on the same file: %d" % stats.get("file.routes_compared"))
    if stats.get("files_with_masses_in_exponent_notation") < (5 if tier == "quick" else 500):
        need.append("files with masses in exponent notation: %d" % stats.get("files_with_masses_in_exponent_notation"))
    if stats.get("files_with_a_comment_behind_the_section_keywords") < (5 if tier == "quick" else 500):
        need.append("files with a comment behind the section keywords: %d" % stats.get("files_with_a_comment_behind_the_section_keywords"))
    if stats.get("direct.single_calls") < 2000:
        need.append("fewer than 2000 single-mass guesses observed (%d)" % stats.get("direct.single_calls"))
    if stats.get("direct.expected_raise") < 100 or stats.get("direct.expected_element") < 1000:
        need.append("both outcomes (element / raise) must be exercised")
    if stats.get("contract_eval.C14.guess_post") < 1000:
        need.append("C14 postcondition contract evaluated only %d times" % stats.get("contract_eval.C14.guess_post"))
    if stats.get("history.guesses") < 1000 or stats.get("history.expected_no_element") < 200:
        need.append("the same mass asked with several tolerances in turn: %d guesses" % stats.get("history.guesses"))
    if stats.get("file.several_masses_outside_tolerance") < 3:
        need.append("files with two or more masses outside the tolerance: %d" % stats.get("file.several_masses_outside_tolerance"))
    if stats.get("file.fallback_expected") < 3 or stats.get("file.elements_expected") < 3:
        need.append("load_lmpdat must be observed on both the element and the fallback path")
    return need
