"""C06 - force-field terms and coefficients of the replacement arrive intact."""
import io

import numpy as np

from vmon import boot, contracts, events
from vmon.gen import atomsgen, patterns, planted, replcase
from vmon.oracle import atomsmodel as AM
from vmon.oracle import geometry as G
from vmon.oracle import lmpread

from vmon.oracle.util import clone

PROPERTY = "C06"
RULE = ("Reference-model monitor. Structures with planted occurrences carry pre-existing typed terms inside, outside and "
        "across the matched groups, coefficient tables present or absent per kind, a pair table or none; replacement "
        "patterns carry their own terms (also between shared atoms, also on exactly the atoms of an existing term, "
        "forwards or backwards) and tables, restricted to the compatible combinations the property lists. Every atom "
        "has a unique id and every coefficient string is unique text naming its origin. After each real replacement "
        "(1-3 matches; chains of two replacements where the second pattern contains atoms inserted by the first; the "
        "documented Example 3 on docs/examples) the result is resolved (type ids -> text) and compared with the "
        "prediction of the harness's own model built from the observed match list; the result is also written with "
        "save_lmpdat, parsed by the independent reader, resolved and compared again. Non-trivial: the replacement "
        "pattern has terms and the structure has a term that touches a matched atom; distinct by seed.")
ASSUMPTIONS = ["structure and pattern are compatible per kind (both tables / neither / one side without terms); pair tables on both sides or on neither, except in the 'cif_like' class, which reproduces known finding F8",
               "positions are C05's business and are not compared here"]
ANCHOR_FUNCS = [("mofun/atoms.py", "Atoms.extend"), ("mofun/atoms.py", "Atoms.extend_types"), ("mofun/atoms.py", "Atoms.__delitem__"), ("mofun/mofun.py", "replace_pattern_in_structure")]
REQUIRED_LINES = [("mofun/atoms.py", "return forward_dir + reverse_dir"), ("mofun/mofun.py", "offsets = new_structure.extend_types(replace_pattern)")]
JOBS = {"quick": 6, "thorough": 16}
PATTERNS = ["asym4", "asym5", "chiral4", "chiral5", "twofold", "pyramid_c3v", "pair_hetero", "single", "asym6", "planar_d3h"]
REPLS = ["equal_identical", "equal_partial", "larger_shared", "far_reaching", "equal_substitution", "smaller_shared", "larger_disjoint", "nudged"]     # nudged: a same-element atom 2e-5 .. 0.08 A beside a search atom (a relaxed geometry) is another atom
F8 = contracts.F8_KEY


def cases(tier, seed):
    rng = np.random.default_rng([6, seed])
    n = 360 if tier == "quick" else 50000
    out = []
    for j in range(n):
        out.append({"kind": "synthetic", "s": int(rng.integers(1 << 30)), "cell": planted.CELL_CLASSES[j % 9], "pattern": PATTERNS[(j // 2) % len(PATTERNS)],
                    "repl": REPLS[(j // 3) % len(REPLS)], "chain": (j // 5) % 3 == 0, "pair": ["both", "neither", "both", "cif_like"][(j // 7) % 4],
                    "replace_all": (j // 11) % 5 == 0, "many": j % 12 == 5})
    out.append({"kind": "example3", "s": 0})
    return out


def add_terms(rng, a, n_atoms, groups, tag, tables, max_each=4, allow_extras=False):
    """random typed terms among the atoms of `a`: anywhere, inside one group, across a group boundary"""
    for kind in atomsgen.KNAMES:
        w = atomsgen.WIDTH[kind]
        terms, seen = [], set()

        def push(t):
            t = tuple(int(x) for x in t)
            if len(set(t)) == w and t not in seen and tuple(reversed(t)) not in seen:
                seen.add(t)
                terms.append(t)
        for _ in range(int(rng.integers(0, max_each + 1))):
            r = int(rng.integers(3))
            if r == 0 or not groups:
                if n_atoms >= w:
                    push(rng.choice(n_atoms, size=w, replace=False))
            else:
                g = groups[int(rng.integers(len(groups)))]
                if r == 1 and len(g) >= w:
                    push(rng.choice(g, size=w, replace=False))
                elif n_atoms >= w and len(g) >= 1:
                    k = int(rng.integers(1, min(w, len(g) + 1)))
                    rest = [i for i in range(n_atoms) if i not in g]
                    if len(rest) >= w - k:
                        t = list(rng.choice(g, size=k, replace=False)) + list(rng.choice(rest, size=w - k, replace=False))
                        rng.shuffle(t)
                        push(t)
        if not terms:
            if tables.get(kind) and rng.integers(3) == 0:
                setattr(a, "%s_type_coeffs" % kind, np.array(["%s_%s_unused%d 9.%d" % (tag, kind, t, t) for t in range(2)]))
            continue
        k = int(rng.integers(1, 4))
        setattr(a, atomsgen.ARR[kind], np.array(terms, dtype=int))
        setattr(a, "%s_types" % kind, np.array([int(x) for x in rng.integers(0, k, len(terms))]))
        setattr(a, "extra_%s_fields" % kind, np.full((len(terms), 0), ".", dtype=object))
        if tables.get(kind):
            setattr(a, "%s_type_coeffs" % kind, np.array(["%s_%s_%d 1.%d # c%s%d" % (tag, kind, t, t, tag, t) for t in range(k)]))


def predict(mS, S_ids, mR_for, found, sel, shared, replace_all, pat_n):
    """the harness's model of one replacement: extend per selected match, then delete"""
    model = mS
    removed = set()
    shared_search = set() if replace_all else set(shared.values())
    for k in sel:
        m = found[k]
        other, rid = mR_for(k)
        idmap = {} if replace_all else {rid[ri]: S_ids[m[sj]] for ri, sj in shared.items()}
        model = AM.extend(model, other, idmap, retag=lambda tok: ("O", tok[1]))
        for j in range(pat_n):
            if j not in shared_search:
                removed.add(S_ids[m[j]])
    return AM.delete(model, removed), removed


def _order_by_position(out, S_ids_set, sel, per_match, obs, pat, rep, rids_base, cell):
    """the selected matches in the order in which their blocks of inserted atoms appear in the result, told by where the blocks
    sit: block b belongs to the match whose rotation puts the replacement's new atoms there (optimal assignment) -> list | None"""
    try:
        if not per_match or not sel or obs.get("quats") is None:
            return None
        oc = [float(c) for c in out.charges]
        ins = [i for i, c in enumerate(oc) if c not in S_ids_set]
        if len(ins) != per_match * len(sel):
            return None
        ppos = np.asarray(pat["positions"], float)
        rpos = np.asarray(rep["positions"], float).reshape(-1, 3)
        opos = np.asarray(out.positions, float)
        cost = np.zeros((len(sel), len(sel)))
        for b in range(len(sel)):
            blk = ins[b * per_match:(b + 1) * per_match]
            for a, k in enumerate(sel):
                q, x0 = obs["quats"][k], np.asarray(obs["found_positions"][k], float)[0]
                tot = 0.0
                for i in blk:
                    ri = rids_base.index(oc[i]) if oc[i] in rids_base else None
                    if ri is None:
                        return None
                    tot += float(G.equal_mod_lattice(cell, (q.apply(rpos[ri] - ppos[0]) + x0)[None, :], opos[i][None, :])[0])
                cost[b, a] = tot
        from scipy.optimize import linear_sum_assignment
        rows, cols = linear_sum_assignment(cost)
        order = [None] * len(sel)
        for b, a in zip(rows, cols):
            order[b] = sel[a]
        return order
    except Exception:
        return None


def out_ids(out, S_ids_set, sel, per_match, step):
    """ids for the atoms of the real result: originals by charge, inserted atoms by (step, k-th replaced match, charge) using
    the observed block structure (inserted atoms are appended match by match, deletions only remove original atoms)"""
    ids, blk, cnt = [], 0, 0
    for c in [float(x) for x in out.charges]:
        if c in S_ids_set:
            ids.append(c)
        else:
            k = sel[blk] if blk < len(sel) else ("extra", blk)
            ids.append((step, k, c))
            cnt += 1
            if per_match and cnt == per_match:
                blk, cnt = blk + 1, 0
    return ids


def one_step(ctx, st, S, pat, rep, R, step, seed, atol, replace_all, case_w, pair_class, label="", fraction=1.0):
    """run one real replacement and compare with the model -> (result Atoms | None, number of matches replaced)"""
    P = patterns.to_atoms(pat)
    events.SCHEDULE["sample"] = ["reversed", "real"][seed % 2]
    obs = replcase.observe_replace(S, P, R, seed, atol=atol, replace_all=replace_all, **({} if fraction >= 1.0 else {"replace_fraction": fraction}))
    st.count("replace_calls")
    if fraction < 1.0:
        st.count("partial_replacements")
    if obs["found"] is None or replcase.matches_overlap(obs["found"]):
        st.count("not_judged_overlap_or_no_search")
        return None, 0
    w = dict(case_w, step=step, found=obs["found"], structure=atomsgen.describe(S), replacement=atomsgen.describe(R))
    if obs["exception"] is not None:
        ctx.fail("%sreplacement raised %s: %s" % (label, type(obs["exception"]).__name__, str(obs["exception"])[:200]), witness=w)
        return None, 0
    out, found, sel = obs["result"], obs["found"], obs["selected"]
    if sel is None:
        st.count("not_judged_selection_not_observable")
        return None, 0
    S_ids = [float(c) for c in S.charges]
    shared = replcase.shared_pairs(pat, rep)
    n_new = len(rep["elements"]) if replace_all else len(rep["elements"]) - len(shared)
    mS = AM.resolve(S)
    rids_base = [float(c) for c in R.charges]

    def mR_for(k):
        rid = [(step, k, c) if (replace_all or ri not in shared) else c for ri, c in enumerate(rids_base)]
        return AM.resolve(R, ids=rid), rid
    pred, removed = predict(mS, S_ids, mR_for, found, sel, shared, replace_all, len(pat["elements"]))
    # in which order the selected matches were served is nobody's business: the blocks of inserted atoms are tried against the
    # selected matches in every order (at most 24) and the first order under which everything agrees is taken
    import itertools
    # each block of inserted atoms belongs to the match at whose place it sits; only where nothing is inserted (or the places
    # cannot be told) are the blocks tried against the selected matches in every order
    geo = _order_by_position(out, set(S_ids), sel, n_new, obs, pat, rep, rids_base, np.array(S.cell, float))
    if geo is not None:
        orders = [geo]
        st.count("blocks_of_inserted_atoms_assigned_to_matches_by_position")
    else:
        orders = [list(sel)] + ([list(p) for p in itertools.permutations(sel) if list(p) != list(sel)] if 2 <= len(sel) <= 4 else [])
    first = None
    for order in orders:
        if order != list(sel):
            pred, removed = predict(mS, S_ids, mR_for, found, order, shared, replace_all, len(pat["elements"]))
        oid = out_ids(out, set(S_ids), order, n_new, step)
        real = AM.resolve(out, ids=oid)
        bad = AM.compare(real, pred, check_pos=False)
        if first is None or len(bad) < len(first[2]):
            first = (oid, real, bad, pred)      # (the order that leaves the fewest disagreements, should none leave none)
        if not bad:
            if order != list(sel):
                st.count("matches_served_in_another_order_than_selected")
            break
    else:
        oid, real, bad, pred = first
    judge(ctx, st, bad, pair_class, w, label + "in memory: ")
    st.count("steps_compared_with_model")
    st.count("matches_replaced", len(sel))
    # the LAMMPS data file written from it must say the same
    if len(out) > 0:
        f = io.StringIO()
        try:
            out.save_lmpdat(f)
        except Exception as e:
            if type(e).__name__ == "PostBroken":
                raise
            ctx.fail("%ssave_lmpdat of the result raised %s: %s" % (label, type(e).__name__, str(e)[:160]), witness=w)
            return out, len(sel)
        d = lmpread.parse(f.getvalue(), atom_style="full")
        probs = lmpread.consistency_problems(d)
        fileclause = [("file", p) for p in probs]
        if pair_class == "cif_like":
            fileclause = [(("pair", p) if p.startswith("Pair Coeffs lists types") else ("file", p)) for p in probs]
        filemodel = AM.from_lammps(d, ids=oid)
        bad2 = fileclause + AM.compare(filemodel, pred, check_pos=False, fields=("label", "mass", "pair", "charge", "group"), term_extras=False, mass_tol=1e-6)
        judge(ctx, st, bad2, pair_class, w, label + "as written to a LAMMPS data file: ")
        st.count("files_compared_with_model")
    # observations for evidence
    touched = set()
    for k in sel:
        touched |= {S_ids[i] for i in found[k]}
    pre = sum(1 for kd in AM.KNAMES for t in mS.terms[kd] if set(t[0]) & touched)
    sup = sum(1 for kd in AM.KNAMES for t in mS.terms[kd] if not (set(t[0]) & removed)) - sum(1 for kd in AM.KNAMES for t in pred.terms[kd] if all(isinstance(i, float) and i in set(S_ids) for i in t[0]) and t in mS.terms[kd])
    st.count("existing_terms_touching_matches", pre)
    rterms = sum(len(getattr(R, "%s_types" % kd)) for kd in AM.KNAMES)
    st.count("pattern_terms_inserted", rterms * len(sel))
    return out, (len(sel) if (rterms and pre) else -len(sel))


def judge(ctx, st, bad, pair_class, w, label):
    if not bad:
        return
    fields = {f for f, _ in bad}
    if pair_class == "cif_like" and fields <= {"pair"}:
        # known finding F8: the only disagreement is the pair text after merging a pair table into a structure that has none
        ctx.fail(label + bad[0][1], witness=dict(w, fields=sorted(fields)), key=F8)
        st.count("known_finding_F8_observed")
        return
    for f, msg in bad[:3]:
        ctx.fail(label + msg, witness=dict(w, field=f))


def run_case(case, ctx):
    rng = np.random.default_rng(case["s"])
    st = ctx.stats
    if case["kind"] == "example3":
        return example3(ctx, st)
    atol = 0.05
    pat = patterns.make(rng, case["pattern"])
    k = int(rng.integers(1, 4))
    if case.get("many"):
        k = 12      # a dozen occurrences of which a part is replaced: tables indexed by match number reach two digits
    built = planted.build(rng, pat, case["cell"], atol, n_copies=k, crossings=[int(x) for x in rng.integers(0, 4, k)],
                          poses=[planted.POSES[int(x)] for x in rng.integers(0, len(planted.POSES), k)], n_bystanders=int(rng.integers(2, 8)) if case["s"] % 3 else int(rng.integers(1, 4)),
                          n_distractors=0, min_sep=1.35)
    S = built["atoms"]
    n = len(S)
    S.atom_type_labels = ["S_%s" % e for e in S.atom_type_elements]
    pair_class = case["pair"]
    if pair_class == "both":
        S.pair_coeffs = np.array(["S_pair_%s 0.1 3.%d # S%s" % (e, t, e) for t, e in enumerate(S.atom_type_elements)])
    # per kind: table on the structure?
    s_tables = {kd: bool(rng.integers(2)) for kd in atomsgen.KNAMES}
    # one case in three: a densely connected structure (many terms among few atoms), so that index coincidences between
    # pattern terms and unrelated structure terms actually occur
    dense = case["s"] % 3 == 0
    add_terms(rng, S, n, built["planted"], "S", s_tables, max_each=14 if dense else 4)
    if dense:
        st.count("densely_connected_structures")
    rep = replcase.make_replacement(rng, pat, case["repl"])
    if len(rep["elements"]) == 0:
        return
    R = replcase.rep_to_atoms(rep, id_base=-100.0)
    R.atom_type_labels = ["P_%s" % e for e in R.atom_type_elements]
    if pair_class in ("both", "cif_like"):
        R.pair_coeffs = np.array(["P_pair_%s 0.2 2.%d # P%s" % (e, t, e) for t, e in enumerate(R.atom_type_elements)])
    r_tables = {}
    for kd in atomsgen.KNAMES:
        s_has_terms = len(getattr(S, "%s_types" % kd)) > 0
        s_has_table = len(getattr(S, "%s_type_coeffs" % kd)) > 0
        r_tables[kd] = s_has_table if s_has_terms else (True if s_has_table else bool(rng.integers(2)))
    add_terms(rng, R, len(R), [], "P", r_tables, max_each=3)
    # force overrides: a pattern term on exactly the atoms of an existing structure term (planted order = pattern order for asymmetric patterns)
    shared = replcase.shared_pairs(pat, rep)
    inv = {sj: ri for ri, sj in shared.items()}
    for kd in atomsgen.KNAMES:
        arr = np.asarray(getattr(S, atomsgen.ARR[kd])).reshape(-1, atomsgen.WIDTH[kd])
        if len(arr) == 0 or len(getattr(R, "%s_types" % kd)) == 0 or rng.integers(2):
            continue
        for g in built["planted"]:
            pos_in_g = {a: j for j, a in enumerate(g)}
            for row in arr:
                if all(int(a) in pos_in_g and pos_in_g[int(a)] in inv for a in row):
                    t = [inv[pos_in_g[int(a)]] for a in row]
                    if rng.integers(2):
                        t = t[::-1]
                    rarr = np.asarray(getattr(R, atomsgen.ARR[kd])).reshape(-1, atomsgen.WIDTH[kd])
                    if not any(list(x) == t or list(x)[::-1] == t for x in rarr.tolist()):
                        setattr(R, atomsgen.ARR[kd], np.append(rarr, [t], axis=0))
                        setattr(R, "%s_types" % kd, np.append(getattr(R, "%s_types" % kd), getattr(R, "%s_types" % kd)[0]))
                        setattr(R, "extra_%s_fields" % kd, np.full((len(rarr) + 1, 0), ".", dtype=object))
                        st.count("forced_override_terms")
                    break
    # one case in three: the structure describes some interactions by two terms over the same atoms (a torsion as a sum of two
    # cosine terms, listed forwards or backwards, each with its own type) - preferably where the pattern brings its own term
    if case["s"] % 3 == 1:
        for kd in atomsgen.KNAMES:
            wd = atomsgen.WIDTH[kd]
            arr = np.asarray(getattr(S, atomsgen.ARR[kd])).reshape(-1, wd)
            if len(arr) == 0:
                continue
            rarr = [tuple(int(x) for x in r) for r in np.asarray(getattr(R, atomsgen.ARR[kd])).reshape(-1, wd)]
            targets = []
            for g in built["planted"]:
                pos_in_g = {a: j for j, a in enumerate(g)}
                for ri, row in enumerate(arr):
                    if all(int(a) in pos_in_g and pos_in_g[int(a)] in inv for a in row):
                        t = tuple(inv[pos_in_g[int(a)]] for a in row)
                        if t in rarr or t[::-1] in rarr:
                            targets.append(ri)
            ri = targets[0] if targets else int(rng.integers(len(arr)))
            twin = arr[ri] if rng.integers(2) else arr[ri][::-1]
            types = np.asarray(getattr(S, "%s_types" % kd))
            ntab = len(getattr(S, "%s_type_coeffs" % kd))
            ttwin = (int(types[ri]) + 1) % ntab if ntab > 1 else int(types[ri])
            setattr(S, atomsgen.ARR[kd], np.append(arr, [twin], axis=0))
            setattr(S, "%s_types" % kd, np.append(types, ttwin))
            setattr(S, "extra_%s_fields" % kd, np.full((len(arr) + 1, 0), ".", dtype=object))
            st.count("structure_terms_doubled_over_the_same_atoms")
            if targets:
                st.count("doubled_structure_terms_that_the_pattern_supersedes")
    w = {"case": {k2: case[k2] for k2 in ("cell", "pattern", "repl", "chain", "pair", "replace_all")}, "planted": built["planted"]}
    out, nrep = one_step(ctx, st, S, pat, rep, R, 1, case["s"], atol, case["replace_all"], w, pair_class, fraction=[1.0, 1.0, 1.0, 0.67, 0.5][(case["s"] // 3) % 5] if not case.get("many") else [0.25, 0.34, 0.5][case["s"] % 3])
    if case.get("many") and nrep >= 3:
        st.count("partial_replacements_of_three_or_more_out_of_nine_or_more_matches")
    nontrivial = nrep > 0
    # (after a 'cif_like' first step the intermediate structure is itself the known finding: not a consistent input for a second step)
    if out is not None and case["chain"] and abs(nrep) > 0 and len(rep["elements"]) >= 1 and pair_class != "cif_like":
        # second replacement: search for the motif just inserted (its coordinates are the replacement pattern's), parameterise it again
        pat2 = {"elements": list(rep["elements"]), "positions": np.array(rep["positions"], float), "cls": "inserted_motif", "continuous_symmetry": None}
        reparam = case["s"] % 2 == 1
        if reparam:
            # the group just inserted, parameterised again: the same atoms, type labels and numbers of term types as the first
            # replacement pattern, other masses, pair coefficients and coefficient texts (a re-fitted force field)
            rep2 = {"elements": list(rep["elements"]), "positions": np.array(rep["positions"], float), "kind": "reparametrised", "shared_search": None}
        else:
            rep2 = replcase.make_replacement(rng, pat2, ["equal_identical", "equal_partial", "larger_shared"][int(rng.integers(3))])
        if len(rep2["elements"]):
            if reparam:
                from vmon.gen import inplace
                R2 = inplace.rebuild(R)
                R2.charges = np.array([-300.0 - i / 64.0 for i in range(len(R2))])
                R2.atom_type_masses = np.array(R2.atom_type_masses, float) + 1.0
                for attr in ["pair_coeffs"] + ["%s_type_coeffs" % kd for kd in atomsgen.KNAMES]:
                    if len(getattr(R2, attr)) > 0:
                        setattr(R2, attr, np.array([str(x).replace("P_", "Q_").replace("# c", "# refit c") for x in getattr(R2, attr)]))
                st.count("second_replacements_with_the_first_pattern_reparametrised")
            else:
                R2 = replcase.rep_to_atoms(rep2, id_base=-300.0)
                R2.atom_type_labels = ["Q_%s" % e for e in R2.atom_type_elements]
                if len(out.pair_coeffs) > 0:
                    R2.pair_coeffs = np.array(["Q_pair_%s 0.3 1.%d # Q%s" % (e, t, e) for t, e in enumerate(R2.atom_type_elements)])
                t2 = {kd: (len(getattr(out, "%s_type_coeffs" % kd)) > 0 if len(getattr(out, "%s_types" % kd)) > 0 else (True if len(getattr(out, "%s_type_coeffs" % kd)) > 0 else bool(rng.integers(2))))
                      for kd in atomsgen.KNAMES}
                add_terms(rng, R2, len(R2), [], "Q", t2, max_each=3)
            # the intermediate structure is used as the first call returned it (what it carries besides its public arrays
            # goes along); only its atom ids are renewed
            out1 = out if reparam else clone(out)
            # make ids unique again: the copies inserted in step 1 share charges; give every atom of the intermediate structure its own id
            out1.charges = np.array([5000.0 + i / 64.0 for i in range(len(out1))])
            out2, nrep2 = one_step(ctx, st, out1, pat2, rep2, R2, 2, case["s"] + 1, 2 * atol, bool(reparam and case["s"] % 4 == 1), w, "both" if len(out.pair_coeffs) else "neither", label="second replacement: ")
            if out2 is not None:
                st.count("two_step_chains")
                nontrivial = nontrivial or nrep2 > 0
    st.seen("cell_class", case["cell"])
    st.seen("pair_class", pair_class)
    st.seen("repl_kind", rep["kind"])
    for kd in atomsgen.KNAMES:
        st.seen("table_combo", "%s:S=%s/%s,P=%s/%s" % (kd, "terms" if len(getattr(S, kd + "_types")) else "none", "table" if len(getattr(S, kd + "_type_coeffs")) else "notable",
                                                    "terms" if len(getattr(R, kd + "_types")) else "none", "table" if len(getattr(R, kd + "_type_coeffs")) else "notable"))
    if nontrivial:
        ctx.nontrivial(case["s"])
        if len(S) <= 16:
            ctx.sample({"case": w["case"], "structure": atomsgen.describe(S), "replacement": atomsgen.describe(R)})


def example3(ctx, st):
    """the documented workflow: CIF structure, metal centre then linker, both parameterised patterns from LAMMPS files"""
    from mofun import Atoms
    r = boot.repo_path
    S = Atoms.load(r("docs", "examples", "uio66.cif"))
    S.charges = np.array([1000.0 + i / 64.0 for i in range(len(S))])
    steps = [("uio66-metal-center.cml", "uio66-metal-center-parameterized.lmpdat"), ("uio66-linker-Zr.cml", "uio66-linker-Zr-parameterized.lmpdat")]
    cur = S
    for step, (pf, rf) in enumerate(steps, 1):
        P = Atoms.load(r("docs", "examples", pf))
        R = Atoms.load(r("docs", "examples", rf))
        R.charges = np.array([-100.0 * step - i / 64.0 for i in range(len(R))])
        pat = {"elements": list(P.elements), "positions": np.array(P.positions, float), "cls": pf, "continuous_symmetry": None}
        rep = {"elements": list(R.elements), "positions": np.array(R.positions, float), "kind": rf}
        obsS = cur
        out = example_step(ctx, st, obsS, P, R, pat, rep, step, pf, rf)
        if out is None:
            return
        cur = clone(out)
        cur.charges = np.array([5000.0 * step + i / 64.0 for i in range(len(cur))])
    st.count("example3_completed")
    ctx.nontrivial(["example3"])
    ctx.sample({"kind": "example3", "structure": "docs/examples/uio66.cif", "steps": steps, "final_atoms": len(cur), "final_atom_types": len(cur.atom_type_elements), "final_pair_coeffs": len(cur.pair_coeffs)})


def example_step(ctx, st, S, P, R, pat, rep, step, pf, rf):
    obs = replcase.observe_replace(S, P, R, 0, atol=0.05)
    w = {"kind": "example3", "step": step, "search": pf, "replace": rf, "found": None if obs["found"] is None else len(obs["found"])}
    if obs["found"] is None or obs["exception"] is not None:
        ctx.fail("Example 3 step %d raised %r" % (step, obs["exception"]), witness=w)
        return None
    out, found, sel = obs["result"], obs["found"], obs["selected"]
    if not found:
        ctx.fail("Example 3 step %d found no occurrence of %s" % (step, pf), witness=w)
        return None
    S_ids = [float(c) for c in S.charges]
    shared = replcase.shared_pairs(pat, rep)
    mS = AM.resolve(S)
    rids_base = [float(c) for c in R.charges]

    def mR_for(k):
        rid = [(step, k, c) if ri not in shared else c for ri, c in enumerate(rids_base)]
        return AM.resolve(R, ids=rid), rid
    # overlapping matches are part of this workflow (patterns share atoms by design): the model applies them in order
    pred, removed = predict(mS, S_ids, mR_for, found, sel, shared, False, len(pat["elements"]))
    oid = out_ids(out, set(S_ids), sel, len(rep["elements"]) - len(shared), step)
    bad = AM.compare(AM.resolve(out, ids=oid), pred, check_pos=False)
    pair_class = "cif_like" if (len(S.pair_coeffs) == 0 or getattr(S, "_vmon_pair_merge", False)) else "both"
    judge(ctx, st, bad, pair_class, w, "Example 3 step %d in memory: " % step)
    f = io.StringIO()
    out.save_lmpdat(f)
    d = lmpread.parse(f.getvalue(), atom_style="full")
    probs = lmpread.consistency_problems(d)
    fileclause = [(("pair", p) if p.startswith("Pair Coeffs lists types") else ("file", p)) for p in probs]
    bad2 = fileclause + AM.compare(AM.from_lammps(d, ids=oid), pred, check_pos=False, fields=("label", "mass", "pair", "charge", "group"), term_extras=False, mass_tol=1e-6)
    judge(ctx, st, bad2, pair_class, w, "Example 3 step %d as written to a LAMMPS data file: " % step)
    st.count("example3_steps")
    st.count("steps_compared_with_model")
    return out


def requirements(stats, tier):
    need = []
    if stats.get("partial_replacements_of_three_or_more_out_of_nine_or_more_matches") < (8 if tier == "quick" else 1000):
        need.append("partial replacements of three or more out of nine or more matches: %d" % stats.get("partial_replacements_of_three_or_more_out_of_nine_or_more_matches"))
    if stats.get("doubled_structure_terms_that_the_pattern_supersedes") < (5 if tier == "quick" else 500):
        need.append("structure terms doubled over the same atoms that the pattern supersedes: %d" % stats.get("doubled_structure_terms_that_the_pattern_supersedes"))
    if stats.get("steps_compared_with_model") < (300 if tier == "quick" else 40000):
        need.append("too few replacement steps compared: %d" % stats.get("steps_compared_with_model"))
    if stats.get("second_replacements_with_the_first_pattern_reparametrised") < (10 if tier == "quick" else 1000):
        need.append("chains whose second replacement re-parametrises the first pattern: %d" % stats.get("second_replacements_with_the_first_pattern_reparametrised"))
    if stats.get("two_step_chains") < (20 if tier == "quick" else 3000):
        need.append("too few two-step chains: %d" % stats.get("two_step_chains"))
    if stats.get("example3_completed") < 1:
        need.append("documented Example 3 not completed")
    if stats.get("existing_terms_touching_matches") < 200 or stats.get("pattern_terms_inserted") < 500:
        need.append("too few pre-existing terms at matches (%d) or pattern terms inserted (%d)" % (stats.get("existing_terms_touching_matches"), stats.get("pattern_terms_inserted")))
    if stats.get("partial_replacements") < 30:
        need.append("partial replacements: %d" % stats.get("partial_replacements"))
    if stats.get("forced_override_terms") < 10:
        need.append("forced overrides: %d" % stats.get("forced_override_terms"))
    if stats.nseen("pair_class") < 3:
        need.append("pair classes not all observed")
    return need
