"""C11 - extending a structure appends atoms and re-targets terms correctly."""
import numpy as np

from vmon.gen import atomsgen
from vmon.oracle import atomsmodel as AM

from vmon.oracle.util import clone

PROPERTY = "C11"
RULE = ("Pairs (self, other) of generated structures with all term kinds, tables present/absent per kind in every "
        "compatible combination, extra columns on either side; for |self|<=4, |other|<=3 EVERY partial injection "
        "other->self is used as identity map; modes: default type merging, explicit shared offsets (0,0,0,0,0) with "
        "shared tables, one extend_types call followed by two extensions with the same fragment; override cases put a "
        "term of `other` on exactly the atoms of an existing term, forwards or backwards, for each kind. Structures of 1e5..3e5 atoms whose terms sit on the last atoms, fragment "
        "attached one or two places beside an existing term (large index values). After each "
        "real extend the object is resolved and compared with the reference model. Non-trivial: identity map non-empty "
        "or an existing term superseded; distinct by (generator seed, mode).")
ASSUMPTIONS = ["per kind the two structures are compatible (both tables / neither / one side has no terms); pair tables on both or neither side",
               "atom ids are carried in the charge array"]
ANCHOR_FUNCS = [("mofun/atoms.py", "Atoms.extend"), ("mofun/atoms.py", "Atoms.extend_types"), ("mofun/atoms.py", "Atoms._extend_extra_fields")]
REQUIRED_LINES = [("mofun/atoms.py", "return forward_dir + reverse_dir"),
                  ("mofun/atoms.py", "self.extra_atom_fields[self_index, :] = xf_atoms[other_index, :]")]
JOBS = {"quick": 4, "thorough": 16}


def exhaustive(tier):
    return True   # identity maps are enumerated completely for the small sizes


def cases(tier, seed):
    rng = np.random.default_rng([11, seed])
    out = []
    reps = 2 if tier == "quick" else 60
    for _ in range(reps):
        for ns in range(1, 5):
            for no in range(1, 4):
                for mode in ("default", "shared", "repeat"):
                    out.append({"kind": "exhaustive", "ns": ns, "no": no, "mode": mode, "s": int(rng.integers(1 << 30))})
    nrand = 480 if tier == "quick" else 80000
    for j in range(nrand):
        big = j % 3 == 2      # fragments of 9-20 atoms of which most are declared identical: few, high-numbered atoms are left to append
        out.append({"kind": "random", "ns": int(rng.integers(4, 13)) if not big else int(rng.integers(14, 24)),
                    "no": (int(rng.integers(1, 9)) if j % 2 else int(rng.integers(4, 9))) if not big else int(rng.integers(9, 21)), "big_map": big,
                    "mode": ["default", "shared", "repeat"][j % 3],
                    "s": int(rng.integers(1 << 30)), "override": atomsgen.KNAMES[(j // 2) % 4] if j % 2 == 0 else None})
    # a fragment term on three atoms of an existing four-atom term and on a fourth atom 16 or 32 places from its end atom
    for j in range(40 if tier == "quick" else 4000):
        out.append({"kind": "random", "ns": int(rng.integers(20, 48)), "no": int(rng.integers(4, 9)), "big_map": False, "mode": ["default", "shared", "repeat"][j % 3],
                    "s": int(rng.integers(1 << 30)), "override": None, "near_override": True})
    # structures with more than 1e5 / 2e5 atoms: atom indices are large numbers (float tolerances, packed keys, narrow
    # integer types show only here); terms sit on the last atoms, next to the ones the fragment is attached to
    for j in range(6 if tier == "quick" else 60):
        out.append({"kind": "large", "ns": int([100200, 131100, 200300, 262200, 100007, 310000][j % 6] + rng.integers(0, 50)), "no": int(rng.integers(4, 7)),
                    "mode": ["default", "repeat", "shared"][j % 3], "s": int(rng.integers(1 << 30)), "mapped": j % 4 != 3 or j % 2 == 1, "many": j % 2 == 1,
                    "narrow_types": [None, "int8", "uint8", None, "int16", "int8"][j % 6]})
    return out


def _build_large(rng, n, many=False):
    from mofun import Atoms
    top = 16 if not many else 2400
    nt = 2
    atom_types = np.zeros(n, dtype=int)
    atom_types[-top:] = rng.integers(0, nt, top)
    atom_types[:2] = [0, 1]
    kw = dict(atom_types=atom_types, positions=rng.uniform(0, 60, (n, 3)), atom_type_elements=["C", "O"], atom_type_masses=[12.011, 15.999],
              atom_type_labels=["S_C0", "S_O1"], charges=1000.0 + np.arange(n) / 64.0, groups=np.zeros(n, dtype=int), cell=np.diag([60.0, 60.0, 60.0]))
    for kind in atomsgen.KNAMES:
        w = atomsgen.WIDTH[kind]
        terms = []
        starts = sorted(set(int(x) for x in rng.integers(n - top, n - w - 2, 3))) if not many else range(n - top, n - w - 2)
        for start in starts:        # many: a chain of > 2048 terms of every kind (tables, masks and blocks sized in powers of two end before that)
            terms.append(tuple(range(start, start + w)) if rng.integers(2) else tuple(range(start + w - 1, start - 1, -1)))
        kw[atomsgen.ARR[kind]] = terms
        kw["%s_types" % kind] = [int(x) for x in rng.integers(0, 2, len(terms))]
        kw["%s_type_coeffs" % kind] = ["S_%s_%d 1.%d" % (kind, t, t) for t in range(2)]
    return Atoms(**kw)


def _compat_opts(rng, a_self):
    """choose kinds/tables for `other` compatible with a_self"""
    kinds, tables = {}, {}
    for kind in atomsgen.KNAMES:
        s_terms = len(getattr(a_self, "%s_types" % kind)) > 0
        s_table = len(getattr(a_self, "%s_type_coeffs" % kind)) > 0
        m = int(rng.integers(0, 4))
        kinds[kind] = m
        if s_terms:
            tables[kind] = s_table if m > 0 else bool(rng.integers(2)) and s_table
        else:
            # self has no terms of this kind: other may or may not have a table, but avoid {table without terms} x {terms without table}
            tables[kind] = True if s_table and m > 0 else (bool(rng.integers(2)) and m > 0)
    return kinds, tables


def _build_pair(rng, ns, no, mode, cell):
    from mofun import Atoms
    # one pair in four: both structures carry the SAME two or three extra labels for some kinds, listed in another order
    # (columns are merged by label, not by position)
    same_labels = None
    if rng.integers(4) == 0:
        same_labels = {k: ["_x_%s_%s" % (k, c) for c in "abc"[: int(rng.integers(2, 4))]] for k in list(atomsgen.KNAMES) + ["atom"] if rng.integers(3) > 0}
    a = atomsgen.gen_atoms(rng, ns, tag="S", id_base=1000.0, cell=cell, max_terms=3, extras=same_labels)
    if mode == "shared":
        # other shares self's type ids: same tables, ids within them; used with offsets (0,0,0,0,0)
        kw = dict(atom_types=[int(x) for x in rng.integers(0, len(a.atom_type_elements), no)], positions=rng.uniform(-2, 2, (no, 3)),
                  atom_type_elements=list(a.atom_type_elements), atom_type_masses=list(a.atom_type_masses),
                  atom_type_labels=list(a.atom_type_labels), pair_coeffs=list(a.pair_coeffs),
                  charges=[atomsgen.uid(2000.0, i) for i in range(no)], groups=[int(x) for x in rng.integers(0, 3, no)])
        for kind in atomsgen.KNAMES:
            table = list(getattr(a, "%s_type_coeffs" % kind))
            stypes = getattr(a, "%s_types" % kind)
            terms = atomsgen.random_terms(rng, no, atomsgen.WIDTH[kind], int(rng.integers(0, 4)))
            if not terms:
                continue
            if table:
                types = [int(x) for x in rng.integers(0, len(table), len(terms))]
            elif len(stypes):
                types = [int(x) for x in rng.integers(0, int(max(stypes)) + 2, len(terms))]
            else:
                types = [int(x) for x in rng.integers(0, 2, len(terms))]
            kw[atomsgen.ARR[kind]] = terms
            kw["%s_types" % kind] = types
            kw["%s_type_coeffs" % kind] = table
        o = Atoms(**kw)
    else:
        kinds, tables = _compat_opts(rng, a)
        o_extras = None
        if same_labels is not None:
            o_extras = {}
            for k, labs in same_labels.items():
                perm = list(labs)
                while perm == list(labs):
                    perm = [labs[i] for i in rng.permutation(len(labs))]
                o_extras[k] = perm
            SAME_LABELS_OTHER_ORDER[0] += 1
        o = atomsgen.gen_atoms(rng, no, tag="O", id_base=2000.0, cell=None, kinds=kinds, tables=tables, pair=len(a.pair_coeffs) > 0, extras=o_extras)
    if (ns + no) % 3 == 0:
        _numeric_extras(o)
        if ns % 2:
            _numeric_extras(a)
    return a, o


NUMERIC_EXTRAS = [0]
SAME_LABELS_OTHER_ORDER = [0]


def _numeric_extras(x):
    """the extra columns hold numbers and flags rather than text (occupancies, formal charges, flags set by a script): among them
    values that are real but falsy - 0, 0.0, False"""
    vals = [0, 5, 0.0, 2.5, False, 7, True, -1]
    for kind in ["atom"] + list(atomsgen.KNAMES):
        xf = np.asarray(getattr(x, "extra_%s_fields" % kind), dtype=object)
        if xf.size:
            new = np.empty(xf.shape, dtype=object)
            for r in range(xf.shape[0]):
                for c in range(xf.shape[1]):
                    new[r, c] = vals[(r * 3 + c) % len(vals)]
            setattr(x, "extra_%s_fields" % kind, new)
            NUMERIC_EXTRAS[0] += 1


DUPLICATED = [0]


def _add_override(rng, a, o, idx_map):
    """give `o` one term per possible kind that lands exactly on an existing term of `a` (forwards or backwards)."""
    inv = {v: k for k, v in idx_map.items()}
    done = []
    for kind in atomsgen.KNAMES:
        arr = np.asarray(getattr(a, atomsgen.ARR[kind])).reshape(-1, atomsgen.WIDTH[kind])
        otypes = getattr(o, "%s_types" % kind)
        if len(arr) == 0 or len(otypes) == 0:
            continue
        cands = [t for t in arr if all(int(i) in inv for i in t)]
        if not cands:
            continue
        chosen = cands[int(rng.integers(len(cands)))]
        if rng.integers(2) == 0:
            # the structure holds a second term over exactly these atoms, listed the same way, of another (or the same) type - a
            # torsion written as a sum of two terms, a bond listed twice by the file it came from: the fragment's term supersedes both
            atypes = np.asarray(getattr(a, "%s_types" % kind))
            setattr(a, atomsgen.ARR[kind], np.append(arr, [[int(i) for i in chosen]], axis=0))
            setattr(a, "%s_types" % kind, np.append(atypes, atypes[int(rng.integers(len(atypes)))]))
            axf = getattr(a, "extra_%s_fields" % kind)
            setattr(a, "extra_%s_fields" % kind, np.append(axf, [["dup%s" % kind[0]] * axf.shape[1]], axis=0))
            DUPLICATED[0] += 1
        t = [inv[int(i)] for i in chosen]
        rev = bool(rng.integers(2))
        if rev:
            t = t[::-1]
        oarr = np.asarray(getattr(o, atomsgen.ARR[kind])).reshape(-1, atomsgen.WIDTH[kind])
        if any(list(x) == t or list(x)[::-1] == t for x in oarr.tolist()):
            done.append((kind, "already"))
            continue
        setattr(o, atomsgen.ARR[kind], np.append(oarr, [t], axis=0))
        setattr(o, "%s_types" % kind, np.append(otypes, otypes[0]))
        xf = getattr(o, "extra_%s_fields" % kind)
        setattr(o, "extra_%s_fields" % kind, np.append(xf, [["ov%s" % kind[0]] * xf.shape[1]], axis=0))
        done.append((kind, "reversed" if rev else "forward"))
    return done


def _add_near_override(rng, a, o):
    """give `o` a four-atom term that lands on three atoms of an existing dihedral / improper of `a` and on a fourth atom whose
    index differs from the existing term's end atom by 16 or 32 (not the same atoms: the existing term must survive)
    -> identity map or None"""
    no, ns = len(o), len(a)
    for kind in (["dihedral", "improper"] if rng.integers(2) else ["improper", "dihedral"]):
        arr = np.asarray(getattr(a, atomsgen.ARR[kind])).reshape(-1, 4)
        otypes = getattr(o, "%s_types" % kind)
        if len(arr) == 0 or len(otypes) == 0 or no < 4:
            continue
        for t in rng.permutation(len(arr)):
            t = [int(x) for x in arr[int(t)]]
            e = int(rng.choice([0, 3]))
            cands = [t[e] + d for d in (16, -16, 32, -32) if 0 <= t[e] + d < ns and t[e] + d not in t]
            if not cands:
                continue
            tgt = list(t)
            tgt[e] = int(cands[int(rng.integers(len(cands)))])
            src = [int(x) for x in rng.choice(no, size=4, replace=False)]
            term = src if rng.integers(2) else src[::-1]
            oarr = np.asarray(getattr(o, atomsgen.ARR[kind])).reshape(-1, 4)
            if any(list(x) == term or list(x)[::-1] == term for x in oarr.tolist()):
                continue
            setattr(o, atomsgen.ARR[kind], np.append(oarr, [term], axis=0))
            setattr(o, "%s_types" % kind, np.append(otypes, otypes[0]))
            xf = getattr(o, "extra_%s_fields" % kind)
            setattr(o, "extra_%s_fields" % kind, np.append(xf, [["nv%s" % kind[0]] * xf.shape[1]], axis=0))
            return dict(zip(src, tgt))
    return None


def _check(real, pred, ctx, what, a, o, idx_map, st):
    bad = AM.compare(AM.resolve(real), pred)
    st.count("extensions_checked")
    for f, msg in bad[:3]:
        ctx.fail("%s: %s" % (what, msg), witness={"field": f, "self": atomsgen.describe(a), "other": atomsgen.describe(o), "index_map": {str(k): v for k, v in idx_map.items()}})
    return not bad


def _retag(tok):
    return ("O", tok[1])


def run_one(rng, a, o, idx_map, mode, ctx, st):
    ma, mo = AM.resolve(a), AM.resolve(o)
    sid, oid = ma.ids(), mo.ids()
    idmap = {oid[k]: sid[v] for k, v in idx_map.items()}
    b = clone(a)
    from vmon.oracle.util import flavour
    fk = (len(a) * 7 + len(o)) % 10
    if fk < 5 and len(a) < 5000:
        # (the structure being extended is modified by design: it is not handed over read-only; the fragment may well be)
        st.seen("array_flavour", flavour(b, fk if fk != 3 else 0) + "/" + flavour(o, fk + len(idx_map)))
    what = "extend(mode=%s, map=%s)" % (mode, idx_map)
    try:
        if mode == "default":
            if (len(a) + len(o)) % 3 == 0:
                b.extend(o, structure_index_map=dict(idx_map), verbose=True)          # the diagnostic output switched on: same result
                st.count("extensions_with_verbose_output")
            else:
                b.extend(o, structure_index_map=dict(idx_map))
            pred = AM.extend(ma, mo, idmap, retag=_retag)
            _check(b, pred, ctx, what, a, o, idx_map, st)
        elif mode == "shared":
            ntab = {k: len(getattr(b, "%s_type_coeffs" % k)) for k in atomsgen.KNAMES}
            if len(a) % 2:
                b.extend(o, (0, 0, 0, 0, 0), dict(idx_map))                      # by position, documented order
                st.count("extensions_with_positional_arguments")
            else:
                b.extend(o, offsets=(0, 0, 0, 0, 0), structure_index_map=dict(idx_map))
            pred = AM.extend(ma, mo, idmap, retag=None)
            _check(b, pred, ctx, what, a, o, idx_map, st)
            for k in atomsgen.KNAMES:
                if len(getattr(b, "%s_type_coeffs" % k)) != ntab[k]:
                    ctx.fail("%s: %s table changed length although ids were supplied as shared" % (what, k))
        else:
            offs = b.extend_types(o)
            o1 = clone(o)
            o1.charges = np.array([atomsgen.uid(3000.0, i) for i in range(len(o))])
            if len(a) % 2:
                b.extend(o, offs, dict(idx_map))                                 # by position
                st.count("extensions_with_positional_arguments")
            else:
                b.extend(o, offsets=offs, structure_index_map=dict(idx_map))
            pred = AM.extend(ma, mo, idmap, retag=_retag)
            ok = _check(b, pred, ctx, what + " first", a, o, idx_map, st)
            # second extension with the same fragment (new ids), same offsets, no identity map
            b.extend(o1, offsets=offs)
            pred2 = AM.extend(pred, AM.resolve(o1), {}, retag=_retag)
            if ok:
                _check(b, pred2, ctx, what + " second (same offsets)", a, o, {}, st)
            st.count("repeat_extensions")
    except Exception as e:
        if type(e).__name__ == "PostBroken":
            raise
        ctx.fail("%s raised %s: %s" % (what, type(e).__name__, e), witness={"self": atomsgen.describe(a), "other": atomsgen.describe(o), "index_map": {str(k): v for k, v in idx_map.items()}})
    st.seen("mode", mode)
    st.seen("map_size", len(idx_map))
    for kind in atomsgen.KNAMES:
        st.seen("table_combo", "%s:self=%s/%s,other=%s/%s" % (kind, "terms" if len(getattr(a, kind + "_types")) else "none", "table" if len(getattr(a, kind + "_type_coeffs")) else "notable",
                                                         "terms" if len(getattr(o, kind + "_types")) else "none", "table" if len(getattr(o, kind + "_type_coeffs")) else "notable"))
        if list(getattr(a, "extra_%s_labels" % kind)) != list(getattr(o, "extra_%s_labels" % kind)):
            st.seen("extra_label_merge", kind)
    if list(a.extra_atom_labels) != list(o.extra_atom_labels):
        st.seen("extra_label_merge", "atom")


def run_case(case, ctx):
    rng = np.random.default_rng(case["s"])
    st = ctx.stats
    if case["kind"] == "large":
        n = case["ns"]
        a = _build_large(rng, n, many=case.get("many", False))
        if case["mode"] == "shared":
            from mofun import Atoms
            no = case["no"]
            kw = dict(atom_types=[int(x) for x in rng.integers(0, 2, no)], positions=rng.uniform(-2, 2, (no, 3)), atom_type_elements=list(a.atom_type_elements),
                      atom_type_masses=list(a.atom_type_masses), atom_type_labels=list(a.atom_type_labels), charges=[atomsgen.uid(2000.0, i) for i in range(no)])
            for kind in atomsgen.KNAMES:
                kw[atomsgen.ARR[kind]] = [tuple(range(atomsgen.WIDTH[kind]))]
                kw["%s_types" % kind] = [1]
                kw["%s_type_coeffs" % kind] = list(getattr(a, "%s_type_coeffs" % kind))
            o = Atoms(**kw)
        else:
            o = atomsgen.gen_atoms(rng, case["no"], tag="O", id_base=2000.0, cell=None, kinds={k: 2 for k in atomsgen.KNAMES}, tables={k: True for k in atomsgen.KNAMES},
                                   pair=False, extras={})
            for kind in atomsgen.KNAMES:      # one term on the fragment's first atoms in sequence
                arr = np.asarray(getattr(o, atomsgen.ARR[kind])).reshape(-1, atomsgen.WIDTH[kind])
                arr[0] = np.arange(atomsgen.WIDTH[kind])
                setattr(o, atomsgen.ARR[kind], arr)
        idx_map = {}
        if case["mapped"]:
            # attach the fragment's first atoms to consecutive atoms one or two places beside an existing term
            kind = atomsgen.KNAMES[int(rng.integers(4))]
            arr = np.asarray(getattr(a, atomsgen.ARR[kind])).reshape(-1, atomsgen.WIDTH[kind])
            if case.get("many"):
                # the fragment's term lands on exactly the atoms of an existing term far down the list (row > 2048), listed either way
                row = [int(x) for x in arr[int(rng.integers(2060, len(arr)))]]
                tgt = row if rng.integers(2) else row[::-1]
                shift = 0
                st.count("terms_superseded_beyond_row_2048")
            else:
                t = sorted(int(x) for x in arr[int(rng.integers(len(arr)))])
                shift = int(rng.choice([1, 2, -1, -2])) if n > 200000 else int(rng.choice([1, -1]))
                tgt = [x + shift for x in t]
            if max(tgt) < n and min(tgt) >= 0:
                idx_map = {i: tgt[i] for i in range(len(tgt))}
        if case.get("narrow_types"):
            # the fragment's few atom types held in a narrow integer array (int8 / uint8 / int16), as a compact file format yields them
            o.atom_types = np.asarray(o.atom_types).astype(getattr(np, case["narrow_types"]))
            st.count("large_extensions_by_a_fragment_with_narrow_integer_atom_types")
        run_one(rng, a, o, idx_map, case["mode"], ctx, st)
        st.count("extensions_of_structures_with_more_than_1e5_atoms")
        st.seen("large_size_class", n // 100000)
        ctx.nontrivial([case["s"], case["mode"], "large"])
        return
    n0, m0 = NUMERIC_EXTRAS[0], SAME_LABELS_OTHER_ORDER[0]
    a, o = _build_pair(rng, case["ns"], case["no"], case["mode"], ["ortho", None][case["s"] % 2])
    if NUMERIC_EXTRAS[0] > n0:
        st.count("extensions_with_numbers_and_flags_in_extra_columns")
    if SAME_LABELS_OTHER_ORDER[0] > m0:
        st.count("extensions_whose_fragment_lists_the_same_extra_labels_in_another_order")
    if case["kind"] == "exhaustive":
        maps = atomsgen.partial_injections(case["no"], case["ns"])
        for idx_map in maps:
            run_one(rng, a, o, idx_map, case["mode"], ctx, st)
        st.count("identity_maps_enumerated", len(maps))
        ctx.nontrivial([case["s"], case["mode"]])
        if case["ns"] >= 3 and case["no"] >= 2:
            ctx.sample({"self": atomsgen.describe(a), "other": atomsgen.describe(o), "mode": case["mode"], "identity_maps": "all %d partial injections" % len(maps)})
    else:
        k = int(rng.integers(0, min(case["ns"], case["no"]) + 1)) if not case.get("big_map") else int(rng.integers(case["no"] // 2, min(case["ns"], case["no"] - 1) + 1))
        src = [int(x) for x in rng.choice(case["no"], size=k, replace=False)]
        dst = [int(x) for x in rng.choice(case["ns"], size=k, replace=False)]
        idx_map = dict(zip(src, dst))
        if case.get("override"):
            # make the identity map cover the atoms of one existing term of the requested kind
            kind = case["override"]
            arr = np.asarray(getattr(a, atomsgen.ARR[kind])).reshape(-1, atomsgen.WIDTH[kind])
            if len(arr) and case["no"] >= arr.shape[1]:
                t = [int(i) for i in arr[int(rng.integers(len(arr)))]]
                src = [int(x) for x in rng.choice(case["no"], size=len(t), replace=False)]
                idx_map = dict(zip(src, t))
        if case.get("near_override"):
            m2 = _add_near_override(rng, a, o)
            if m2 is not None:
                idx_map = m2
                st.count("fragment_terms_next_to_an_existing_term_with_an_end_atom_16_or_32_places_away")
        ov = []
        if case.get("override") and idx_map and not case.get("near_override"):
            nd = DUPLICATED[0]
            ov = _add_override(rng, a, o, idx_map)
            if DUPLICATED[0] > nd:
                st.count("fragment_terms_landing_on_atoms_that_carry_two_terms_of_the_kind", DUPLICATED[0] - nd)
            for kind, d in ov:
                st.seen("override", "%s:%s" % (kind, d))
        run_one(rng, a, o, idx_map, case["mode"], ctx, st)
        if idx_map or ov:
            ctx.nontrivial([case["s"], case["mode"]])
        if ov:
            ctx.sample({"self": atomsgen.describe(a), "other": atomsgen.describe(o), "mode": case["mode"], "index_map": {str(k): v for k, v in idx_map.items()}, "overrides": ov})


def requirements(stats, tier):
    need = []
    if stats.get("extensions_with_verbose_output") < (50 if tier == "quick" else 5000) or stats.get("extensions_with_positional_arguments") < (50 if tier == "quick" else 5000):
        need.append("call forms: %d extensions with verbose output, %d with positional arguments" % (stats.get("extensions_with_verbose_output"), stats.get("extensions_with_positional_arguments")))
    if stats.get("fragment_terms_next_to_an_existing_term_with_an_end_atom_16_or_32_places_away") < (15 if tier == "quick" else 1500):
        need.append("fragment terms beside an existing four-atom term (end atom 16 or 32 places away): %d" % stats.get("fragment_terms_next_to_an_existing_term_with_an_end_atom_16_or_32_places_away"))
    if stats.get("extensions_checked") < (1500 if tier == "quick" else 150000):
        need.append("too few extensions observed: %d" % stats.get("extensions_checked"))
    for m in ("default", "shared", "repeat"):
        if not stats.has("mode", m):
            need.append("mode %s not observed" % m)
    if stats.get("large_extensions_by_a_fragment_with_narrow_integer_atom_types") < (3 if tier == "quick" else 40):
        need.append("large structures extended by a fragment with int8/uint8/int16 atom types: %d" % stats.get("large_extensions_by_a_fragment_with_narrow_integer_atom_types"))
    if stats.get("extensions_of_structures_with_more_than_1e5_atoms") < (6 if tier == "quick" else 60) or stats.nseen("large_size_class") < 3:
        need.append("structures with more than 1e5 atoms: %d extensions" % stats.get("extensions_of_structures_with_more_than_1e5_atoms"))
    if stats.get("fragment_terms_landing_on_atoms_that_carry_two_terms_of_the_kind") < (20 if tier == "quick" else 2000):
        need.append("fragment terms landing on atoms that carry two terms of the kind: %d" % stats.get("fragment_terms_landing_on_atoms_that_carry_two_terms_of_the_kind"))
    if stats.get("terms_superseded_beyond_row_2048") < (2 if tier == "quick" else 20):
        need.append("terms superseded beyond row 2048 of a term list: %d" % stats.get("terms_superseded_beyond_row_2048"))
    ov = stats.sets.get("override", set())
    for kind in atomsgen.KNAMES:
        if not any(x.startswith(kind + ":forward") for x in ov) or not any(x.startswith(kind + ":reversed") for x in ov):
            need.append("no forward+reversed override observed for %s (%s)" % (kind, sorted(ov)))
    if stats.get("extensions_with_numbers_and_flags_in_extra_columns") < (10 if tier == "quick" else 500):
        need.append("extensions with numbers / flags (0, 0.0, False among them) in extra columns: %d" % stats.get("extensions_with_numbers_and_flags_in_extra_columns"))
    if stats.nseen("extra_label_merge") < 3:
        need.append("extra-column label merging observed for fewer than 3 loops")
    return need
