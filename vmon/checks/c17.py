"""C17 - bond detection equals the minimum-image covalent-radius rule."""
import itertools

import numpy as np

from vmon.oracle import geometry as G

PROPERTY = "C17"
RULE = ("(A) every ordered pair of the 97 elements of the radius table as a two-atom structure at distance "
        "cutoff-/+1e-3 and cutoff-/+2e-6, placed directly or so that the nearest image lies across a face, an edge or a "
        "corner of an orthorhombic or triclinic cell (LAMMPS orientation, arbitrarily rotated, or with the lattice vectors permuted / negated) (the number of faces crossed is measured after wrapping); "
        "(B) random structures of 2-14 atoms in no cell / orthorhombic / triclinic cells with widths above the largest "
        "cutoff; (C) pairs at cutoff-/+1e-3 in thin, strongly sheared cells (hardly wider than one bond, tilts of 0.3 - 1.0 of an edge), "
        "half of them in cells whose edges exceed two of the longest possible bonds while one face spacing does not, the bond laid "
        "across the thin direction so that its nearest image in space is not the nearest in fractional coordinates. Oracle: brute force over 125 images with the harness's own statement of the rule (radii and non-metal "
        "list read from the module as given data); pairs i<j, each once; shift+wrap and permutation relations; the same "
        "object detected again, again after being moved in place, and again after one of its cell vectors was lengthened in "
        "place (judged against the rule applied to the object's state at that time). "
        "Non-trivial: the expected answer contains a bond that exists only through a periodic image, or a pair within "
        "2e-3 of its cutoff; distinct by case parameters.")
ASSUMPTIONS = ["COVALENT_RADII and NON_METALS are the property's given data", "pairs exactly at the cutoff are never generated; a structure with a pair within 1e-9 of its cutoff is discarded as gray"]
ANCHOR_FUNCS = [("mofun/detect_bonds.py", "detect_bonds"), ("mofun/detect_bonds.py", "max_bond_length")]
REQUIRED_LINES = [("mofun/detect_bonds.py", "uc_offsets = np.array([[0., 0., 0.]])"), ("mofun/detect_bonds.py", "return COVALENT_RADII[el1] + COVALENT_RADII[el2]\n") ]
JOBS = {"quick": 4, "thorough": 16}
IMG125 = np.array(list(itertools.product(range(-2, 3), repeat=3)), dtype=float)


def tables():
    import mofun.detect_bonds as db
    return dict(db.COVALENT_RADII), list(db.NON_METALS)


def cutoff(e1, e2, radii, nonmetals):
    c = radii[e1] + radii[e2]
    if e1 in nonmetals or e2 in nonmetals:
        c += 0.45
    return c


def ref_bonds(elements, pos, cell, radii, nonmetals):
    """-> (set of (i,j) i<j, via_image set, min margin |d - cutoff|)"""
    n = len(pos)
    out, via = set(), set()
    margin = np.inf
    offs = IMG125.dot(cell) if cell is not None else np.zeros((1, 3))
    if n > 40:
        # the same rule, one row of the distance table at a time
        pos = np.asarray(pos, float)
        for i in range(n - 1):
            dm = np.linalg.norm(pos[i + 1:][None, :, :] - pos[i] + offs[:, None, :], axis=2).min(axis=0)
            d0 = np.linalg.norm(pos[i + 1:] - pos[i], axis=1)
            cs = np.array([cutoff(elements[i], elements[j], radii, nonmetals) for j in range(i + 1, n)])
            margin = min(margin, float(np.abs(dm - cs).min()))
            for k in np.nonzero(dm < cs)[0]:
                out.add((i, i + 1 + int(k)))
                if cell is not None and d0[k] >= cs[k]:
                    via.add((i, i + 1 + int(k)))
        return out, via, margin
    for i in range(n):
        for j in range(i + 1, n):
            d = np.linalg.norm(pos[j] - pos[i] + offs, axis=1)
            dmin = d.min()
            c = cutoff(elements[i], elements[j], radii, nonmetals)
            margin = min(margin, abs(dmin - c))
            if dmin < c:
                out.add((i, j))
                if cell is not None and np.linalg.norm(pos[j] - pos[i]) >= c:
                    via.add((i, j))
    return out, via, margin


def make_atoms(elements, pos, cell, split=None):
    """split: the structure is typed (as read from a LAMMPS data file or assembled with extend): every second element has two
    atom types, its atoms alternate between them; the type table lists first types, then second types"""
    from mofun import Atoms
    from mofun.atomic_masses import ATOMIC_MASSES
    types = list(dict.fromkeys(elements))
    if split is None:
        split = len(elements) % 2 == 1 and len(elements) >= 3
    if not split:
        return Atoms(atom_types=[types.index(e) for e in elements], positions=pos, atom_type_elements=types,
                     atom_type_masses=[ATOMIC_MASSES.get(e, 2.014) for e in types], atom_type_labels=types, cell=cell)
    second = [e for k, e in enumerate(types) if k % 2 == 0]
    table = types + second
    labels = ["%s_1" % e for e in types] + ["%s_2" % e for e in second]
    seen = {}
    atom_types = []
    for e in elements:
        k = seen.get(e, 0)
        seen[e] = k + 1
        atom_types.append(len(types) + second.index(e) if (e in second and k % 2 == 0) else types.index(e))
    SPLIT_COUNT[0] += 1
    return Atoms(atom_types=atom_types, positions=pos, atom_type_elements=table, atom_type_masses=[ATOMIC_MASSES.get(e, 2.014) for e in table],
                 atom_type_labels=labels, cell=cell)


SPLIT_COUNT = [0]


def cases(tier, seed):
    rng = np.random.default_rng([17, seed])
    radii, _ = tables()
    els = list(radii)
    out = []
    placements = ["direct", "face", "edge", "corner"]
    k = 0
    for e1 in els:
        batch = []
        for e2 in els:
            for sign in (-1, 1):
                pls = placements if tier == "thorough" else [placements[int(rng.integers(4))]]
                k += 1
                for pl in pls:
                    batch.append([e2, sign, pl])
        out.append({"kind": "pairs", "e1": e1, "items": batch, "s": int(rng.integers(1 << 30))})
    nrand = 150 if tier == "quick" else 60000
    for j in range(nrand):
        out.append({"kind": "random", "s": int(rng.integers(1 << 30)), "cell": [None, "ortho", "tri"][j % 3]})
    # thin, strongly sheared cells (a layered or chain compound in its primitive cell): hardly wider than one bond, tilts of 0.3 .. 0.5
    # of an edge. There the nearest image in space need not be the image nearest in fractional coordinates
    for j in range(24 if tier == "quick" else 3000):
        out.append({"kind": "thin_sheared", "s": int(rng.integers(1 << 30))})
    # an atom stored a little outside the box (a file written without wrapping: fractional coordinates of 1.02 or -0.01), bonded through
    # the opposite face to an atom that lies deep inside the cell
    for j in range(16 if tier == "quick" else 2000):
        out.append({"kind": "stored_outside", "s": int(rng.integers(1 << 30))})
    # one site listed on two opposite faces of a triclinic cell (fractional 0 and 1): the two entries coincide through a periodic image
    for j in range(80 if tier == "quick" else 6000):
        out.append({"kind": "random", "s": int(rng.integers(1 << 30)), "cell": "tri", "coincide": True})
    # structures of the size of a real linker or small framework (65 .. a few hundred atoms), at the density of a molecular solid
    for j in range(9 if tier == "quick" else 400):
        out.append({"kind": "random", "s": int(rng.integers(1 << 30)), "cell": [None, "ortho", "tri"][j % 3], "large": 140 if tier == "quick" else 420})
    return out


def rand_cell(rng, kind, lo, hi):
    a, b, c = rng.uniform(lo, hi, 3)
    if kind == "ortho":
        return np.diag([a, b, c])
    for _ in range(100):
        xy, xz, yz = rng.uniform(-0.5, 0.5, 3) * np.array([a, a, b])
        cell = np.array([[a, 0, 0], [xy, b, 0], [xz, yz, c]])
        if kind == "general":         # the same lattice in an arbitrary orientation (diagonal entries of any sign)
            cell = cell.dot(G.random_rotation(rng).T)
        elif kind == "permuted":      # lattice vectors listed in another order / one pair negated: zero or negative diagonal entries
            r = int(rng.integers(4))
            cell = [cell[[1, 2, 0]], cell * np.array([[-1.0], [-1.0], [1.0]]), cell[[1, 0, 2]], cell * np.array([[1.0], [1.0], [-1.0]])][r]   # the last two are left-handed
        if G.perp_widths(cell).min() > lo:
            return cell
    return np.diag([a, b, c])


def detect(a):
    import mofun.detect_bonds as db
    return db.detect_bonds(a)


def check(elements, pos, cell, ctx, st, radii, nonmetals, what, metamorphic_rng=None, int_cell=0):
    exp, via, margin = ref_bonds(elements, pos, cell, radii, nonmetals)
    if margin < 1e-9:
        st.count("gray_discarded")
        return None
    cell_given = cell
    if cell is not None and int_cell:
        # the same cell written with integers (nested list or integer array), as a user typing Atoms(cell=[[10,0,0],...]) does
        cell_given = [[int(v) for v in row] for row in cell] if int_cell == 1 else np.array(cell, dtype=int)
        st.count("integer_cells")
    n0 = SPLIT_COUNT[0]
    a = make_atoms(elements, pos, cell_given)
    got = np.asarray(detect(a)).reshape(-1, 2)
    st.count("detections_checked")
    if SPLIT_COUNT[0] > n0:
        st.count("detections_in_structures_with_several_atom_types_per_element")
    rows = [tuple(int(v) for v in r) for r in got]
    w = {"what": what, "elements": elements[:14], "positions": np.round(pos, 5).tolist()[:14], "cell": None if cell is None else np.round(cell, 5).tolist()}
    if any(i >= j for i, j in rows):
        ctx.fail("%s: a returned pair is not ordered i<j: %s" % (what, [r for r in rows if r[0] >= r[1]][:3]), witness=w)
    if len(set(rows)) != len(rows):
        ctx.fail("%s: a pair is returned more than once" % what, witness=w)
    gs = set(tuple(sorted(r)) for r in rows)
    if gs != exp:
        ctx.fail("%s: detected %s, rule gives %s (spurious %s, missing %s)" % (what, sorted(gs)[:6], sorted(exp)[:6], sorted(gs - exp)[:4], sorted(exp - gs)[:4]), witness=w)
    if metamorphic_rng is not None and cell is not None and margin > 1e-6:
        rng = metamorphic_rng
        shift = rng.uniform(-1, 1, 3).dot(cell) * 2
        p2 = G.wrap(cell, pos + shift)
        g2 = set(tuple(sorted(int(v) for v in r)) for r in np.asarray(detect(make_atoms(elements, p2, cell))).reshape(-1, 2))
        if g2 != gs:
            ctx.fail("%s: bonding changed after shifting the structure by %s and wrapping: %s vs %s" % (what, np.round(shift, 4).tolist(), sorted(g2 ^ gs)[:4], ""), witness=w)
        st.count("shift_relations_checked")
        # the same relation on the SAME object, moved in place after it has been searched once (and searched twice in a row)
        g_again = set(tuple(sorted(int(v) for v in r)) for r in np.asarray(detect(a)).reshape(-1, 2))
        a.positions = G.wrap(cell, np.asarray(a.positions, float) + shift)
        g_moved = set(tuple(sorted(int(v) for v in r)) for r in np.asarray(detect(a)).reshape(-1, 2))
        if g_again != gs or g_moved != gs:
            ctx.fail("%s: bonding of one and the same object changes between calls (repeat: %s, after moving it in place: %s)" % (what, sorted(g_again ^ gs)[:3], sorted(g_moved ^ gs)[:3]), witness=w)
        # ... and after two atoms of different elements exchanged their types where they are (an in-place edit of the type array:
        # the radii, and the non-metal allowance, go with the atoms' elements as they are now)
        els_now = list(elements)
        diff = [(i, j) for i in range(len(els_now)) for j in range(i + 1, len(els_now)) if els_now[i] != els_now[j]]
        if diff and isinstance(a.atom_types, np.ndarray):
            i, j = diff[int(rng.integers(len(diff)))]
            ti, tj = int(a.atom_types[i]), int(a.atom_types[j])
            a.atom_types[i], a.atom_types[j] = tj, ti
            els_now[i], els_now[j] = els_now[j], els_now[i]
            pos_now = np.asarray(a.positions, float)
            exp_t, _, margin_t = ref_bonds(els_now, pos_now, cell, radii, nonmetals)
            if margin_t > 1e-6:
                g_t = set(tuple(sorted(int(v) for v in r)) for r in np.asarray(detect(a)).reshape(-1, 2))
                st.count("detections_after_two_atoms_exchanged_their_types_in_place")
                if exp_t != gs:
                    st.count("detections_after_an_inplace_type_exchange_with_other_bonding")
                if g_t != exp_t:
                    ctx.fail("%s: after atoms %d and %d exchanged their types in place, detected %s, rule gives %s (spurious %s, missing %s)" %
                             (what, i, j, sorted(g_t)[:6], sorted(exp_t)[:6], sorted(g_t - exp_t)[:4], sorted(exp_t - g_t)[:4]), witness=w)
            a.atom_types[i], a.atom_types[j] = ti, tj
        # ... and after the object's cell was edited where it is (one cell vector lengthened: bonds through that face go)
        if isinstance(a.cell, np.ndarray):
            k = int(rng.integers(3))
            a.cell[k, k] += 7
            cell_now = np.array(a.cell, float)
            pos_now = np.asarray(a.positions, float)
            if np.all(G.frac(cell_now, pos_now) > -1e-9) and np.all(G.frac(cell_now, pos_now) < 1 + 1e-9):
                exp2, _, margin2 = ref_bonds(elements, pos_now, cell_now, radii, nonmetals)
                if margin2 > 1e-6:
                    g_cell = set(tuple(sorted(int(v) for v in r)) for r in np.asarray(detect(a)).reshape(-1, 2))
                    st.count("detections_after_inplace_cell_edit")
                    if exp2 != gs:
                        st.count("detections_after_inplace_cell_edit_with_other_bonding")
                    if g_cell != exp2:
                        ctx.fail("%s: after lengthening cell vector %d of the same object in place, detected %s, rule gives %s (spurious %s, missing %s)" %
                                 (what, k, sorted(g_cell)[:6], sorted(exp2)[:6], sorted(g_cell - exp2)[:4], sorted(exp2 - g_cell)[:4]), witness=dict(w, cell_now=cell_now.tolist()))
    if metamorphic_rng is not None:
        perm = metamorphic_rng.permutation(len(elements))
        g3 = set(tuple(sorted(int(perm[v]) for v in r)) for r in np.asarray(detect(make_atoms([elements[i] for i in perm], pos[perm], cell))).reshape(-1, 2))
        if g3 != gs:
            ctx.fail("%s: bonding does not follow a reordering of the atoms: differing pairs %s" % (what, sorted(g3 ^ gs)[:4]), witness=w)
        st.count("permutation_relations_checked")
    return exp, via, margin


def run_case(case, ctx):
    rng = np.random.default_rng(case["s"])
    st = ctx.stats
    radii, nonmetals = tables()
    if case["kind"] == "pairs":
        e1 = case["e1"]
        nontrivial = False
        for e2, sign, pl in case["items"]:
            c = cutoff(e1, e2, radii, nonmetals)
            margin = 1e-3 if rng.integers(3) else 2e-6      # also much closer to the cutoff than 1e-3 (still far from float noise)
            d = c + sign * margin
            st.seen("margin", margin)
            kind = ["ortho", "tri", "ortho", "tri", "general", "permuted"][int(rng.integers(6))]
            cell = rand_cell(rng, kind, 12.5, 16.0)
            if rng.integers(5) == 0:
                # a box of several hundred Angstrom (a replicated framework, a slab with vacuum): coordinates of that size carry
                # seven significant digits only in single precision - the pair is still decided in the sixth decimal
                cell = rand_cell(rng, kind, 250.0, 900.0)
                margin = 2e-6 if margin > 1e-4 and rng.integers(2) else margin
                d = c + sign * margin
                st.count("pairs_in_cells_of_several_hundred_angstrom")
            ncross = {"direct": 0, "face": 1, "edge": 2, "corner": 3}[pl]
            # p1 close to the (1,1,..) corner in `ncross` fractional coordinates, direction pointing out of the cell there
            f = rng.uniform(0.35, 0.65, 3)
            axes = list(rng.permutation(3)[:ncross])
            inv = np.linalg.inv(cell)
            u = rng.normal(size=3)
            u /= np.linalg.norm(u)
            for _ in range(200):
                u = rng.normal(size=3)
                u /= np.linalg.norm(u)
                fu = (d * u).dot(inv)
                if all(abs(fu[ax]) > 1e-3 for ax in axes) and all(abs(fu[ax]) < 0.3 for ax in range(3) if ax not in axes):
                    break
            fu = (d * u).dot(inv)
            for ax in axes:
                # put p1 so that p1+d*u leaves the cell through this coordinate
                f[ax] = (1.0 - abs(fu[ax]) * rng.uniform(0.2, 0.8)) if fu[ax] > 0 else (abs(fu[ax]) * rng.uniform(0.2, 0.8))
            p1 = f.dot(cell)
            p2raw = p1 + d * u
            f2 = p2raw.dot(inv)
            crossed = int(np.sum((f2 < 0) | (f2 >= 1)))
            p2 = G.wrap(cell, p2raw[None, :])[0]
            pos = np.array([p1, p2])
            r = check([e1, e2], pos, cell, ctx, st, radii, nonmetals, "pair %s-%s at cutoff%+.0e via %d faces" % (e1, e2, sign * margin, crossed),
                      metamorphic_rng=rng if rng.integers(8) == 0 else None)
            st.seen("pair_class", "%s/%d-faces/%s" % ("below" if sign < 0 else "above", crossed, kind))
            st.count("element_pairs_x_sides")
            if r is not None:
                nontrivial = True
        st.seen("first_element", e1)
        if nontrivial:
            ctx.nontrivial(["pairs", e1])
        if e1 in ("Zr", "O"):
            ctx.sample({"first_element": e1, "items": case["items"][:6], "note": "each item: second element, side of the cutoff (-1 below, +1 above), placement"})
        return
    if case["kind"] == "stored_outside":
        els_all = list(radii)
        done = 0
        for _pair in range(14):
            e1 = els_all[int(rng.integers(len(els_all)))]
            e2 = e1 if rng.integers(2) else els_all[int(rng.integers(len(els_all)))]
            c = cutoff(e1, e2, radii, nonmetals)
            L = max(c, cutoff(e1, e1, radii, nonmetals), cutoff(e2, e2, radii, nonmetals))
            cell = rand_cell(rng, ["ortho", "tri", "general"][_pair % 3], 2.6 * L + 2.5, 4.0 * L + 4.0)
            inv = np.linalg.inv(cell)
            k = int(rng.integers(3))
            nk = inv[:, k] / np.linalg.norm(inv[:, k])            # unit normal of the faces k, pointing from the low to the high face
            wk = 1.0 / np.linalg.norm(inv[:, k])
            sign = -1 if rng.integers(4) else 1
            d = c + sign * 1e-3
            theta = np.radians(rng.uniform(0, 12))
            delta = float(rng.uniform(d * (1 - np.cos(theta)) + 0.02, 1.0))            # how far outside the stored atom lies
            perp = np.cross(nk, rng.normal(size=3))
            perp /= np.linalg.norm(perp)
            u = np.cos(theta) * nk + np.sin(theta) * perp
            f0 = rng.uniform(0.42, 0.58, 3)
            f0[k] = delta / wk
            high = bool(rng.integers(2))
            b_in = f0.dot(cell)                   # the image of the outside atom that lies inside, `delta` from the low face
            a_pos = b_in + d * u                  # its partner, at least one cutoff deep
            if high:
                b_store = b_in + cell[k]          # stored beyond the high face
            else:
                # mirror the construction: partner deep inside measured from the high face, the other atom stored below the low face
                f0[k] = 1.0 - delta / wk
                b_in = f0.dot(cell)
                a_pos = b_in - d * u
                b_store = b_in - cell[k]
            fa = a_pos.dot(inv)
            if not (np.all(fa > 0.02) and np.all(fa < 0.98)):
                continue
            first_inside = bool(rng.integers(3))
            pos = np.array([a_pos, b_store]) if first_inside else np.array([b_store, a_pos])
            els = [e1, e2] if first_inside else [e2, e1]
            r = check(els, pos, cell, ctx, st, radii, nonmetals, "pair %s-%s at cutoff%+.0e, one atom stored %.2f A outside the cell" % (e1, e2, sign * 1e-3, delta),
                      metamorphic_rng=rng if rng.integers(4) == 0 else None)
            if r is None:
                continue
            done += 1
            st.count("pairs_with_an_atom_stored_outside_the_cell")
            if r[0]:
                st.count("bonds_between_an_atom_stored_outside_the_cell_and_one_deep_inside")
        if done:
            ctx.nontrivial(["stored_outside", case["s"]])
        return
    if case["kind"] == "thin_sheared":
        els_all = list(radii)
        heavy = ["Zr", "Hf", "Cs", "Ba", "La", "Pb", "Sr", "K", "Rb", "Th", "U", "Y"]
        done = 0
        for _pair in range(14):
            e1 = heavy[int(rng.integers(len(heavy)))] if rng.integers(3) else els_all[int(rng.integers(len(els_all)))]
            e2 = heavy[int(rng.integers(len(heavy)))] if rng.integers(3) else els_all[int(rng.integers(len(els_all)))]
            boundary = _pair % 2 == 1
            if boundary and rng.integers(2):
                e2 = e1
            if e1 not in radii or e2 not in radii:
                continue
            c = cutoff(e1, e2, radii, nonmetals)
            L = max(c, cutoff(e1, e1, radii, nonmetals), cutoff(e2, e2, radii, nonmetals))      # the longest bond any two of the atoms present could form
            cell, thin = None, None
            for _ in range(400):
                if not boundary:
                    a, b, cz = c * rng.uniform(1.08, 2.4, 3)
                    t = rng.uniform(0.3, 0.5, 3) * rng.choice([-1.0, 1.0], 3)
                else:
                    # every edge longer than two of the longest possible bonds, the spacing of one pair of faces (shortened by the
                    # shear; gamma of 60 / 120 degrees with a < b is such a cell) below two cutoffs: "wide enough for the nearest
                    # image alone" holds by the edge lengths - or by the rows instead of the columns of the inverse cell - and
                    # not by the face spacings
                    a, b, cz = L * rng.uniform(2.05, 3.3, 3)
                    t = rng.uniform(0.3, 1.0, 3) * rng.choice([-1.0, 1.0], 3)
                cand = np.array([[a, 0, 0], [t[0] * a, b, 0], [t[1] * a, t[2] * b, cz]])
                if rng.integers(3) == 0:
                    cand = cand.dot(G.random_rotation(rng).T)
                ci = np.linalg.inv(cand)
                w = 1.0 / np.linalg.norm(ci, axis=0)          # spacing of the faces (columns of the inverse are the face normals / spacing)
                if w.min() <= 1.05 * c:
                    continue
                if boundary:
                    est = [np.linalg.norm(cand, axis=1).min(), (1.0 / np.linalg.norm(ci, axis=1)).min()][_pair // 2 % 2]
                    if not (w.min() < 1.98 * c and est > 2.02 * L):
                        continue
                cell, thin = cand, int(np.argmin(w))
                break
            if cell is None:
                continue
            inv = np.linalg.inv(cell)
            sign = -1 if (boundary or rng.integers(3)) else 1
            margin = 1e-3
            d = c + sign * margin
            u = None
            if boundary:
                # across the thin direction: more than half a face spacing long, so the image one cell vector back is nearer in
                # fractional coordinates and farther in space
                nk = inv[:, thin] / np.linalg.norm(inv[:, thin])
                u = G.rotation_about(rng.normal(size=3), np.radians(rng.uniform(0, 8))).dot(nk) * (1 if rng.integers(2) else -1)
            else:
                for _ in range(400):
                    v = rng.normal(size=3)
                    v /= np.linalg.norm(v)
                    fu = np.abs((d * v).dot(inv))
                    if ((fu > 0.4) & (fu < 0.62)).any():
                        u = v
                        break
            if u is None:
                continue
            p1 = rng.uniform(0, 1, 3).dot(cell)
            pos = np.array([p1, G.wrap(cell, (p1 + d * u)[None, :])[0]])
            r = check([e1, e2], pos, cell, ctx, st, radii, nonmetals, "pair %s-%s at cutoff%+.0e in a thin sheared cell" % (e1, e2, sign * margin),
                      metamorphic_rng=rng if rng.integers(4) == 0 else None)
            if r is None:
                continue
            done += 1
            st.count("pairs_in_thin_sheared_cells")
            if boundary:
                st.count("pairs_in_cells_whose_edges_exceed_two_bonds_and_whose_face_spacing_does_not")
            fr = (pos[1] - pos[0]).dot(inv)
            if r[0] and np.linalg.norm((fr - np.round(fr)).dot(cell)) >= c:
                st.count("bonds_whose_nearest_image_is_not_the_fractionally_nearest_one")
        if done:
            ctx.nontrivial(["thin_sheared", case["s"]])
        return
    kind = case["cell"]
    n = int(rng.integers(2, 15))
    side = None
    if case.get("large"):
        n = int(rng.integers(65, case["large"]))
        side = (n * float(rng.uniform(9.0, 22.0))) ** (1.0 / 3.0)
        st.count("detections_in_structures_of_more_than_64_atoms")
        st.seen("large_size", n)
    els_all = list(radii)
    elements = [els_all[int(i)] for i in rng.integers(0, len(els_all), n)]
    if rng.integers(2):
        common = ["C", "H", "O", "N", "Zr", "Cu", "Zn"]
        elements = [common[int(i)] for i in rng.integers(0, len(common), n)]
    int_cell = 0
    if kind is None:
        cell = None
        pos = rng.uniform(-4, 4, (n, 3)) if side is None else rng.uniform(-side / 2, side / 2, (n, 3))
    else:
        cell = rand_cell(rng, kind, 6.2, 11.0) if side is None else rand_cell(rng, kind, 0.9 * side, 1.15 * side)
        if case["s"] % 3 == 0:
            cell = np.round(cell)            # integer-valued cell, handed over with an integer dtype
            int_cell = 1 + case["s"] % 2
        pos = rng.uniform(0, 1, (n, 3)).dot(cell)
    # degenerate placements: two atoms at the very same position, or at the same point of two opposite cell faces - their
    # minimum-image distance is exactly 0, which is below every cutoff
    if len(pos) >= 2 and (case["s"] % 3 == 0 or case.get("coincide")):
        i, j = [int(x) for x in rng.choice(len(pos), 2, replace=False)]
        if cell is not None and (rng.integers(2) or case.get("coincide")):
            k = int(rng.integers(3))
            f = G.frac(cell, pos[i:i + 1])[0]
            f[k] = 0.0
            pos[i] = f.dot(cell)
            f2 = f.copy()
            f2[k] = 1.0
            pos[j] = f2.dot(cell) if (rng.integers(2) or case.get("coincide")) else pos[i] + cell[k]      # fractional 0 and 1, as a CIF lists such a site
        else:
            pos[j] = pos[i]
        st.count("structures_with_two_atoms_at_distance_zero")
    r = check(elements, pos, cell, ctx, st, radii, nonmetals, "random %s structure%s" % (kind or "cell-free", " (integer cell)" if int_cell else ""), metamorphic_rng=rng, int_cell=int_cell)
    st.seen("random_cell_class", str(kind))
    if r is not None:
        exp, via, margin = r
        st.count("expected_bonds", len(exp))
        st.count("expected_bonds_via_image_only", len(via))
        if via:
            ctx.nontrivial(["random", case["s"]])
        if via and len(exp) < 12:
            ctx.sample({"elements": elements, "cell": None if cell is None else np.round(cell, 3).tolist(), "expected_bonds": sorted(exp), "through_image_only": sorted(via)})


def requirements(stats, tier):
    need = []
    if stats.get("pairs_in_cells_of_several_hundred_angstrom") < (500 if tier == "quick" else 5000):
        need.append("pairs in cells of several hundred Angstrom: %d" % stats.get("pairs_in_cells_of_several_hundred_angstrom"))
    if stats.get("detections_in_structures_with_several_atom_types_per_element") < (30 if tier == "quick" else 5000):
        need.append("detections in structures with several atom types per element: %d" % stats.get("detections_in_structures_with_several_atom_types_per_element"))
    if stats.nseen("first_element") < 97:
        need.append("only %d of 97 first elements covered" % stats.nseen("first_element"))
    if stats.get("element_pairs_x_sides") < 97 * 97 * 2:
        need.append("element pairs x sides: %d < %d" % (stats.get("element_pairs_x_sides"), 97 * 97 * 2))
    if stats.nseen("pair_class") < 14:
        need.append("only %d (side x faces crossed x cell) classes of the 16 observed" % stats.nseen("pair_class"))
    if stats.get("expected_bonds_via_image_only") < 50:
        need.append("too few image-only bonds in random structures")
    if stats.get("detections_after_inplace_cell_edit_with_other_bonding") < (10 if tier == "quick" else 1000):
        need.append("detections on an object whose cell was edited in place, with another expected bonding than before: %d" % stats.get("detections_after_inplace_cell_edit_with_other_bonding"))
    if stats.get("bonds_between_an_atom_stored_outside_the_cell_and_one_deep_inside") < (80 if tier == "quick" else 10000):
        need.append("bonds between an atom stored outside the cell and one deep inside: %d" % stats.get("bonds_between_an_atom_stored_outside_the_cell_and_one_deep_inside"))
    if stats.get("pairs_in_thin_sheared_cells") < (200 if tier == "quick" else 25000):
        need.append("pairs in thin sheared cells: %d" % stats.get("pairs_in_thin_sheared_cells"))
    if stats.get("pairs_in_cells_whose_edges_exceed_two_bonds_and_whose_face_spacing_does_not") < (60 if tier == "quick" else 8000):
        need.append("pairs in cells whose edges exceed two bonds and whose face spacing does not: %d" % stats.get("pairs_in_cells_whose_edges_exceed_two_bonds_and_whose_face_spacing_does_not"))
    if stats.get("bonds_whose_nearest_image_is_not_the_fractionally_nearest_one") < (10 if tier == "quick" else 1000):
        need.append("bonds whose nearest image is not the fractionally nearest one: %d" % stats.get("bonds_whose_nearest_image_is_not_the_fractionally_nearest_one"))
    if stats.get("detections_after_an_inplace_type_exchange_with_other_bonding") < (10 if tier == "quick" else 1000):
        need.append("detections after an in-place exchange of two atoms' types, with another expected bonding than before: %d" % stats.get("detections_after_an_inplace_type_exchange_with_other_bonding"))
    if stats.get("structures_with_two_atoms_at_distance_zero") < 10:
        need.append("structures with two atoms at distance exactly zero: %d" % stats.get("structures_with_two_atoms_at_distance_zero"))
    if stats.get("integer_cells") < 10:
        need.append("cells given with integer entries: %d" % stats.get("integer_cells"))
    if stats.get("detections_in_structures_of_more_than_64_atoms") < (6 if tier == "quick" else 300):
        need.append("structures of more than 64 atoms: %d" % stats.get("detections_in_structures_of_more_than_64_atoms"))
    if stats.nseen("random_cell_class") < 3:
        need.append("random structures did not cover no-cell/ortho/tri")
    return need


def exhaustive(tier):
    return tier == "thorough"   # element pairs x sides x four placements; quick rotates the placement per pair
