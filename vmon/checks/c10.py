"""C10 - deleting atoms removes exactly them and the terms that touch them."""
import numpy as np

from vmon.gen import atomsgen
from vmon.oracle import atomsmodel as AM

from vmon.oracle.util import clone

PROPERTY = "C10"
RULE = ("Generated structures (all four term kinds, with/without tables and extra columns, unique atom ids). For each "
        "structure with N<=Nmax EVERY non-empty subset of atom indices is deleted from a fresh copy, listed sorted, "
        "reversed and shuffled (list and numpy array); pop() and pop(i) for every i; random subsets for N up to 40; "
        "histories of up to six deletions and pops on ONE object, each step compared with the model of the state it was made on; deletions from structures of 1e5..3e5 atoms whose terms sit on the last atoms (large index values), and of 12-45 scattered atoms at once from structures of thousands. "
        "After each deletion the real object is resolved (type ids -> text) and compared with the reference model's "
        "delete. A case (= one structure) is non-trivial if some deletion removed a term and some term survived a "
        "deletion; distinct by generator seed.")
ASSUMPTIONS = ["indices are distinct, valid and non-negative (the property's quantifier)", "atom ids are carried in the charge array, which deletion must not rewrite"]
ANCHOR_FUNCS = [("mofun/atoms.py", "Atoms.__delitem__"), ("mofun/atoms.py", "Atoms._delete_and_reindex_atom_index_array"), ("mofun/atoms.py", "Atoms.pop")]
REQUIRED_LINES = [("mofun/atoms.py", "np.subtract(updated_arr, 1, out=updated_arr, where=updated_arr>i)")]
JOBS = {"quick": 4, "thorough": 16}


def exhaustive(tier):
    return True   # over all subsets x 3 listings of every generated structure with N <= Nmax (see cases_enumerated)


def cases(tier, seed):
    rng = np.random.default_rng([10, seed])
    out = []
    nmax, per_n, nrand = (6, 4, 30) if tier == "quick" else (10, 30, 6000)
    for n in range(1, nmax + 1):
        for j in range(per_n if n > 2 else 2):
            out.append({"kind": "exhaustive", "n": n, "s": int(rng.integers(1 << 30)), "cell": ["ortho", "tri", None][j % 3]})
    for j in range(nrand):
        out.append({"kind": "random", "n": int(rng.integers(8, 41)), "s": int(rng.integers(1 << 30)), "cell": ["ortho", "tri", None][j % 3],
                    "ndel": 6})
    # a few thousand atoms, a small fragment with terms (atoms shared between terms), a few dozen scattered atoms deleted at once
    for j in range(12 if tier == "quick" else 600):
        out.append({"kind": "large", "n": int(rng.integers(1500, 6000)), "s": int(rng.integers(1 << 30)), "cell": "ortho", "ndel": 3, "many": True})
    for j in range(3 if tier == "quick" else 40):
        out.append({"kind": "large", "n": int([100200, 200300, 300100][j % 3] + rng.integers(0, 90)), "s": int(rng.integers(1 << 30)), "cell": "ortho", "ndel": 3})
    return out


def _build_large(rng, n):
    """more than 1e5 atoms, terms on the last 16 atoms: index values are large numbers"""
    from mofun import Atoms
    top = 16
    atom_types = np.zeros(n, dtype=int)
    atom_types[-top:] = rng.integers(0, 2, top)
    atom_types[:2] = [0, 1]
    kw = dict(atom_types=atom_types, positions=rng.uniform(0, 60, (n, 3)), atom_type_elements=["C", "O"], atom_type_masses=[12.011, 15.999],
              atom_type_labels=["S_C0", "S_O1"], charges=1000.0 + np.arange(n) / 64.0, groups=np.zeros(n, dtype=int), cell=np.diag([60.0, 60.0, 60.0]))
    for kind in atomsgen.KNAMES:
        w = atomsgen.WIDTH[kind]
        terms = [tuple(int(x) for x in n - top + rng.choice(top, size=w, replace=False)) for _ in range(4)]
        kw[atomsgen.ARR[kind]] = terms
        kw["%s_types" % kind] = [int(x) for x in rng.integers(0, 2, len(terms))]
        kw["%s_type_coeffs" % kind] = ["S_%s_%d 1.%d" % (kind, t, t) for t in range(2)]
    return Atoms(**kw)


FLAVOUR = [0]


def _one(a, m0, ids, listing, ctx, st, what):
    b = clone(a)
    from vmon.oracle.util import flavour
    st.seen("array_flavour", flavour(b, FLAVOUR[0]))
    try:
        if what == "pop":
            if listing is None:
                b.pop()
            else:
                b.pop(listing)
        else:
            del b[listing]
    except Exception as e:
        ctx.fail("%s(%s) raised %s: %s" % (what, listing, type(e).__name__, e), witness={"op": what, "indices": listing if not hasattr(listing, "tolist") else listing.tolist()})
        return 0, 0
    pred = AM.delete(m0, ids)
    bad = AM.compare(AM.resolve(b), pred)
    st.count("deletions_checked")
    for f, msg in bad[:3]:
        ctx.fail("%s %s: %s" % (what, listing if not hasattr(listing, "tolist") else listing.tolist(), msg),
                 witness={"op": what, "field": f, "structure": atomsgen.describe(a)})
    removed = sum(len(m0.terms[k]) - len(pred.terms[k]) for k in AM.KNAMES)
    survived = sum(len(pred.terms[k]) for k in AM.KNAMES)
    return removed, survived


def run_case(case, ctx):
    rng = np.random.default_rng(case["s"])
    st = ctx.stats
    n = case["n"]
    FLAVOUR[0] = case["s"] % 5
    if case["kind"] == "large":
        a = _build_large(rng, n)
        m0 = AM.resolve(a)
        ids = m0.ids()
        for _ in range(case["ndel"]):
            # a few atoms from the bulk (shifts every later index) and a few of the last 16 (removes terms)
            nbulk = int(rng.integers(12, 45)) if case.get("many") else int(rng.integers(0, 4))
            sub = [int(x) for x in rng.choice(n - 16, size=nbulk, replace=False)] + [int(x) for x in n - 16 + rng.choice(16, size=int(rng.integers(0 if case.get("many") else 1, 4)), replace=False)]
            if case.get("many"):
                st.count("deletions_of_a_dozen_or_more_scattered_atoms")
            rng.shuffle(sub)
            _one(a, m0, [ids[i] for i in sub], sub, ctx, st, "del")
            st.count("deletions_from_structures_with_more_than_1e5_atoms")
        ctx.nontrivial(["large", case["s"], n])
        return
    a = atomsgen.gen_atoms(rng, n, tag="S", cell=case["cell"], max_terms=5, unused_types=bool(rng.integers(2)))
    if n >= 2 and case["s"] % 3 == 0:
        # a small periodic cell: an atom bonded to two images of its neighbour - the angle j-i-j', the torsion i-j-i'-j' and the
        # bond between an atom and its own image list one atom index twice
        i, j = (int(x) for x in np.random.default_rng(case["s"]).choice(n, 2, replace=False))
        for arr, row in (("bonds", (i, i)), ("angles", (j, i, j)), ("dihedrals", (i, j, i, j)), ("impropers", (i, j, j, i))):
            t = np.asarray(getattr(a, arr))
            if len(t) and (arr != "bonds" or case["s"] % 2):
                t = t.copy()
                t[len(t) // 2] = row
                setattr(a, arr, t)
                st.count("terms_listing_one_atom_twice")
    if n >= 2 and case["s"] % 3 == 1:
        # two terms of a kind over the same atoms (a torsion described by two cosine terms, a bond listed once per periodic
        # image): the rows are equal, their types and extra fields are their own
        for arr in ("bonds", "angles", "dihedrals", "impropers"):
            t = np.asarray(getattr(a, arr))
            if len(t) >= 2:
                t = t.copy()
                k1, k2 = (int(x) for x in np.random.default_rng(case["s"] + 1).choice(len(t), 2, replace=False))
                t[k2] = t[k1] if case["s"] % 2 else t[k1][::-1]
                setattr(a, arr, t)
                st.count("terms_over_the_same_atoms_as_another_term")
    m0 = AM.resolve(a)
    ids = m0.ids()
    any_removed = any_survived = False
    if case["kind"] == "exhaustive":
        for sub in atomsgen.all_subsets(n):
            listings = [list(sub), list(reversed(sub))]
            sh = list(sub)
            rng.shuffle(sh)
            listings.append(np.array(sh, dtype=int))
            if len(sub) <= 3:
                listings.append(tuple(sub))
            else:
                listings.append([np.int64(i) for i in reversed(sub)])       # a list of numpy integers, as np.where()[0] yields them
            for li, lst in enumerate(listings):
                r, s = _one(a, m0, [ids[i] for i in sub], lst, ctx, st, "del")
                any_removed |= r > 0
                any_survived |= s > 0
                st.seen("listing", ["sorted", "reversed", "shuffled-array", "tuple" if len(sub) <= 3 else "list-of-numpy-integers"][li])
            st.count("subsets_enumerated")
        st.seen("exhaustive_sizes", n)
        # pop() removes the last atom, pop(i) the i-th
        r, s = _one(a, m0, [ids[-1]], None, ctx, st, "pop")
        st.count("pops_checked")
        for i in range(n):
            _one(a, m0, [ids[i]], i, ctx, st, "pop")
            st.count("pops_checked")
        if n >= 2:
            _one(a, m0, [ids[-2]], -2, ctx, st, "pop")
            st.count("pops_checked")
    else:
        for _ in range(case["ndel"]):
            k = int(rng.integers(1, n + 1))
            sub = [int(x) for x in rng.choice(n, size=k, replace=False)]
            r, s = _one(a, m0, [ids[i] for i in sub], sub, ctx, st, "del")
            any_removed |= r > 0
            any_survived |= s > 0
            st.count("random_subsets")
    # a history on ONE object: deletions and pops one after the other, each judged against the model of the state it was made on
    if n >= 2:
        for h in range(2 if case["kind"] == "exhaustive" else 4):
            b = clone(a)
            from vmon.oracle.util import flavour
            flavour(b, FLAVOUR[0] + h)
            m = m0
            step = 0
            while len(b) > 0 and step < 6:
                nb = len(b)
                cur = m.ids()
                if step % 2 == 0 and h % 2 == 0:
                    i = int(rng.integers(nb)) if step else 0
                    sub, what = [i], "pop"
                else:
                    k = int(rng.integers(1, max(2, nb // 2 + 1)))
                    sub, what = sorted(int(x) for x in rng.choice(nb, size=min(k, nb), replace=False)), "del"
                try:
                    if what == "pop":
                        b.pop(sub[0])
                    else:
                        del b[sub]
                except Exception as e:
                    ctx.fail("step %d of a deletion history on one object: %s(%s) raised %s: %s" % (step, what, sub, type(e).__name__, e), key="history.raised")
                    break
                before_terms = sum(len(m.terms[k]) for k in AM.KNAMES)
                m = AM.delete(m, [cur[i] for i in sub])
                bad = AM.compare(AM.resolve(b), m)
                st.count("deletions_checked")
                st.count("deletions_in_a_history_on_one_object" if step else "first_deletions_of_a_history")
                if step and before_terms:
                    st.count("later_deletions_from_an_object_that_still_had_terms")
                for f, msg in bad[:3]:
                    ctx.fail("step %d of a deletion history on one object, %s %s: %s" % (step, what, sub, msg), key="history." + f,
                             witness={"op": what, "field": f, "structure": atomsgen.describe(a)})
                if bad:
                    break
                step += 1
    nterms = sum(len(m0.terms[k]) for k in AM.KNAMES)
    st.count("structures")
    if nterms:
        st.count("structures_with_terms")
    for k in AM.KNAMES:
        if m0.terms[k]:
            st.seen("kinds_present", k)
            if m0.xlabels[k]:
                st.seen("kinds_with_extra_columns", k)
    if any_removed and any_survived:
        ctx.nontrivial([case["kind"], case["s"], n])
    if case["kind"] == "exhaustive" and n >= 4:
        ctx.sample({"structure": atomsgen.describe(a), "deleted": "every non-empty subset x {sorted,reversed,shuffled}; pop(); pop(i)"})


def requirements(stats, tier):
    need = []
    if stats.get("deletions_checked") < (1000 if tier == "quick" else 100000):
        need.append("too few deletions observed: %d" % stats.get("deletions_checked"))
    if stats.nseen("kinds_present") < 4:
        need.append("not all four term kinds were present in some structure")
    if stats.get("deletions_from_structures_with_more_than_1e5_atoms") < (9 if tier == "quick" else 120):
        need.append("deletions from structures with more than 1e5 atoms: %d" % stats.get("deletions_from_structures_with_more_than_1e5_atoms"))
    if stats.get("deletions_of_a_dozen_or_more_scattered_atoms") < (30 if tier == "quick" else 1500):
        need.append("deletions of a dozen or more scattered atoms from a structure of thousands: %d" % stats.get("deletions_of_a_dozen_or_more_scattered_atoms"))
    if stats.get("later_deletions_from_an_object_that_still_had_terms") < (100 if tier == "quick" else 10000):
        need.append("second and later deletions on one object that still had terms: %d" % stats.get("later_deletions_from_an_object_that_still_had_terms"))
    if stats.nseen("array_flavour") < 5:
        need.append("array flavours of the structure (integer widths, memory order, read-only): %s" % sorted(stats.sets.get("array_flavour", [])))
    if stats.get("terms_over_the_same_atoms_as_another_term") < (10 if tier == "quick" else 1000):
        need.append("terms over the same atoms as another term of the kind: %d" % stats.get("terms_over_the_same_atoms_as_another_term"))
    if stats.get("terms_listing_one_atom_twice") < (10 if tier == "quick" else 1000):
        need.append("terms that list one atom twice (bonded to its own image): %d" % stats.get("terms_listing_one_atom_twice"))
    if stats.get("pops_checked") < 20:
        need.append("pop not observed")
    if stats.get("contract_eval.C10.delitem_post") < stats.get("deletions_checked"):
        need.append("the __delitem__ postcondition was evaluated fewer times (%d) than deletions were made (%d): stale binding" %
                    (stats.get("contract_eval.C10.delitem_post"), stats.get("deletions_checked")))
    return need
