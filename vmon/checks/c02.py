"""C02 - every occurrence is found exactly once, also across periodic boundaries."""
import numpy as np

from vmon.oracle.util import elements_of

from vmon import events
from vmon.gen import inplace, patterns, planted
from vmon.oracle import geometry as G
from vmon.oracle import refmatch

PROPERTY = "C02"
RULE = ("Planted structures: 1-4 copies of a pattern (12 symmetry classes) in random / axis-aligned / antiparallel / "
        "near-antiparallel poses, perturbed by <= 0.08*atol, placed so that a copy straddles exactly 0,1,2 or 3 cell "
        "faces (measured after wrapping), in orthorhombic cells, triclinic cells with all 8 tilt-sign combinations and "
        "cells whose widths are only just above diameter+2*atol; decoys (near miss, tangential near miss, mirror "
        "image, same-element distractors), bystanders; tolerances {0.01,0.05,0.2,0.5}; RNG schedules (seeded, first, "
        "last, round-robin). The expected answer is computed by the harness's independent brute-force matcher with a "
        "clear-occurrence / gray / clear-non-occurrence split; the real search must report every clear occurrence, "
        "no clear non-occurrence, no atom group twice, and exactly the number of occurrences when nothing is gray. The "
        "cells narrower than the pattern is long in one direction (slabs, chains: copies lying across them, judged on the planted "
        "copies only); the same object is then edited where it is (translate()+wrap, atom moved, positions swapped, atom retyped; array "
        "identities kept) and searched and judged again. "
        "Non-trivial: at least one clear occurrence straddling a face or at least one decoy; distinct by seed.")
ASSUMPTIONS = ["gray groups (between 0.12*atol optimal residual and the sqrt(3)*atol RMS bound) are never judged",
               "domain of the reference matcher: atoms inside the cell, perpendicular widths > pattern diameter + 2*atol (checked per case); in the thin-cell class (one width below that) only the planted copies, distinctness of the listed atoms and uniqueness of groups are judged"]
ANCHOR_FUNCS = [("mofun/mofun.py", "_get_positions_from_all_adjacent_unit_cells"), ("mofun/mofun.py", "find_pattern_in_structure"),
                ("mofun/helpers.py", "group_duplicates"), ("mofun/helpers.py", "quaternion_from_two_vectors"),
                ("mofun/helpers.py", "quaternion_from_two_vectors_around_axis")]
REQUIRED_LINES = [("mofun/mofun.py", "nvs = np.array([np.cross(cell[0], cell[1])"), ("mofun/mofun.py", "cell = list(np.diag(cell))"),
                  ("mofun/helpers.py", "axis = np.cross(v1, np.random.random(3))"), ("mofun/mofun.py", "match_chosen = random.choice(good_indices)"),
                  ("mofun/mofun.py", "WARNING: Search pattern was matched, but there is no possible way")]
JOBS = {"quick": 4, "thorough": 16}
ATOLS = [0.01, 0.05, 0.2, 0.5]
SCHEDULES = ["real", "first", "last", "rr"]


def cases(tier, seed):
    rng = np.random.default_rng([2, seed])
    n = 720 if tier == "quick" else 66000
    out = []
    for j in range(n):
        cell_cls = planted.CELL_CLASSES[j % len(planted.CELL_CLASSES)]
        minimal = cell_cls.endswith("minimal")
        ncopies = 1 if minimal else int(rng.integers(1, 5))
        out.append({"s": int(rng.integers(1 << 30)), "cell": cell_cls, "pattern": patterns.CLASSES[(j // len(planted.CELL_CLASSES)) % len(patterns.CLASSES)],
                    "atol": ATOLS[(j // 7) % 4], "crossings": [int(x) for x in rng.integers(0, 4, ncopies)],
                    "poses": [planted.POSES[int(x)] for x in rng.integers(0, len(planted.POSES), ncopies)],
                    "decoys": [] if minimal else [d for d in ("near_miss", "tangential", "mirror") if rng.integers(2)],
                    "schedule": SCHEDULES[(j // 3) % 4]})
    # an almost linear three-atom pattern next to a strongly bent look-alike whose pair distances all agree within the tolerance
    roomy = [c for c in planted.CELL_CLASSES if not c.endswith("minimal")]
    for j in range(48 if tier == "quick" else 4000):
        ncopies = int(rng.integers(1, 4))
        out.append({"s": int(rng.integers(1 << 30)), "cell": roomy[j % len(roomy)], "pattern": "nearly_linear3", "atol": [0.05, 0.1, 0.05, 0.2][j % 4],
                    "crossings": [int(x) for x in rng.integers(0, 4, ncopies)], "poses": [planted.POSES[int(x)] for x in rng.integers(0, len(planted.POSES), ncopies)],
                    "decoys": ["bent", "bent"], "schedule": SCHEDULES[(j // 3) % 4]})
    # one arm (leaf atom first, then the centre) of a planted unit as the search pattern: the occurrences within a unit share the
    # centre atom, and units straddle the cell faces, so one occurrence may reach the centre in the home cell, its sibling through an image
    for j in range(48 if tier == "quick" else 4000):
        ncopies = int(rng.integers(1, 4))
        out.append({"s": int(rng.integers(1 << 30)), "cell": roomy[j % len(roomy)], "pattern": ["twofold", "planar_d3h", "pyramid_c3v"][j % 3], "arm": True, "atol": [0.05, 0.1, 0.01, 0.05][j % 4],
                    "crossings": [int(x) for x in rng.integers(1, 4, ncopies)], "poses": [planted.POSES[int(x)] for x in rng.integers(0, len(planted.POSES), ncopies)],
                    "decoys": [], "schedule": SCHEDULES[(j // 3) % 4]})
    thin_classes = ["pair_hetero", "collinear3", "planar_d3h", "twofold", "flat_polygon", "planar_mirror_pair", "asym5", "pair_homo"]
    for j in range(80 if tier == "quick" else 6000):
        out.append({"s": int(rng.integers(1 << 30)), "thin": True, "pattern": thin_classes[j % len(thin_classes)], "atol": ATOLS[j % 4], "cell": "thin", "schedule": "real"})
    return out


def thin_case(rng, pat, atol):
    """a cell that is narrower than the pattern is long in ONE direction (a slab, a chain, a 2D sheet), with copies lying across it:
    every copy is still a group of distinct atoms. -> (Atoms, cell, planted groups) or None if the pattern is too round for that"""
    from mofun import Atoms
    ppos = np.asarray(pat["positions"], float)
    n = len(ppos)
    if n < 2:
        return None
    cen = ppos - ppos.mean(0)
    _, _, vt = np.linalg.svd(cen)
    Rm = vt[::-1]                       # rows: smallest-variance direction first -> it becomes x
    if np.linalg.det(Rm) < 0:
        Rm[2] = -Rm[2]
    need = G.diameter(ppos) + 2 * atol
    base = cen.dot(Rm.T)
    ex = base[:, 0].max() - base[:, 0].min()
    lo, hi = ex + 1.6, need - 0.3
    if lo >= hi:
        return None
    a = float(rng.uniform(lo, min(hi, lo + 2.0)))
    b, c = need + rng.uniform(3.0, 8.0, 2)
    cell = np.array([[a, 0, 0], [0, b, 0], [0, (rng.uniform(-0.4, 0.4) if rng.integers(2) else 0.0) * b, c]])
    positions, elements, groups = [], [], []
    for k in range(int(rng.integers(1, 3))):
        for _ in range(60):
            rot = base.dot(G.rotation_about(np.array([1.0, 0, 0]), rng.uniform(0, 2 * np.pi)).T)
            pos = rot + rng.uniform(0, 1, 3).dot(cell)
            if all(planted.min_image_dist(cell, q, positions) >= 1.3 for q in pos) and \
                    all(planted.min_image_dist(cell, pos[i], [pos[j] for j in range(n) if j != i]) >= 0.9 for i in range(n)):
                groups.append(list(range(len(positions), len(positions) + n)))
                positions += list(pos)
                elements += list(pat["elements"])
                break
    if not groups:
        return None
    for _ in range(int(rng.integers(0, 5))):
        for _ in range(40):
            q = rng.uniform(0, 1, 3).dot(cell)
            if planted.min_image_dist(cell, q, positions) >= 1.3:
                positions.append(q)
                elements.append("Ar")
                break
    positions = G.wrap(cell, np.array(positions))
    order = rng.permutation(len(elements))
    inv = np.empty(len(order), dtype=int)
    inv[order] = np.arange(len(order))
    atoms = Atoms(elements=[elements[i] for i in order], positions=positions[order], cell=cell, charges=[1000.0 + i / 64.0 for i in range(len(order))])
    return atoms, cell, [[int(inv[i]) for i in g] for g in groups]


def cell_group(cls):
    return cls if not cls.startswith("tri") or cls == "tri_minimal" else cls


def search_and_judge(ctx, st, case, pat, built, atol, hints=(None, None, None), label=""):
    """runs the real search on a planted structure and judges it against refmatch. -> (reported tuples, ref) or None"""
    import mofun
    atoms = built["atoms"]
    cell = built["cell"]
    ppos = np.asarray(pat["positions"], float)
    if not refmatch.in_domain(cell, atoms.positions, ppos, atol):
        st.count("out_of_domain_skipped")
        return None
    ref = refmatch.search(elements_of(atoms), atoms.positions, cell, pat["elements"], ppos, atol)
    if ref["truncated"]:
        st.count("reference_truncated_skipped")
        return None
    patoms = patterns.to_atoms(pat, unused_type=(case["s"] % 4 == 1), table_order="reversed" if case["s"] % 4 == 3 else None)
    if case["s"] % 4 == 1:
        st.count("searches_with_a_pattern_whose_type_table_has_an_unused_entry")
    events.seed_all(case["s"])
    events.SCHEDULE["choice"] = case.get("schedule", "real")
    if case.get("schedule") in ("first", "rr"):
        events.SCHEDULE["nprandom"] = "near_parallel"
    w = {"cell_class": built["cell_cls"], "cell": np.round(cell, 5).tolist(), "pattern_class": pat["cls"], "pattern_elements": pat["elements"],
         "pattern_positions": np.round(ppos, 5).tolist(), "atol": atol, "n_atoms": len(atoms), "planted": built["planted"], "crossings": built["crossings"],
         "poses": built["poses"], "decoys": built["decoy_groups"], "hints": list(hints), "schedule": case.get("schedule")}
    if case["s"] % 3 == 2 and len(pat["elements"]) >= 2 and not label:
        # the same, unmodified structure object was searched before, for something shorter (one atom of the pattern, or its
        # closest pair) and with a tighter tolerance: whatever that search left behind must not narrow this one
        from scipy.spatial.distance import pdist, squareform
        if case["s"] % 2:
            sub = [0]
        else:
            d = squareform(pdist(ppos)) + 1e9 * np.eye(len(ppos))
            sub = [int(i) for i in np.unravel_index(int(np.argmin(d)), d.shape)]
        spat = {"elements": [pat["elements"][i] for i in sub], "positions": ppos[sub]}
        try:
            mofun.find_pattern_in_structure(atoms, patterns.to_atoms(spat), atol=min(atol, 0.01))
            st.count("searches_preceded_by_a_search_for_something_shorter")
        except Exception as e:
            if type(e).__name__ == "PostBroken":
                raise
            st.count("preceding_search_raised.%s" % type(e).__name__)
    try:
        # call forms: the documented default tolerance left out, hints left out when there are none, verbose output switched on
        kw = {} if (atol == 0.05 and case["s"] % 2) else {"atol": atol}
        if hints != (None, None, None) or case["s"] % 3 == 0:
            kw.update(axisp1_idx=hints[0], axisp2_idx=hints[1], opoint_idx=hints[2])
        if case["s"] % 5 == 0:
            kw["verbose"] = True
            st.count("searches_with_verbose_output")
        if "atol" not in kw:
            st.count("searches_relying_on_the_default_tolerance")
        if case["s"] % 7 == 3:
            # every option given by position, in the documented order
            res = mofun.find_pattern_in_structure(atoms, patoms, hints[0], hints[1], hints[2], False, atol, kw.get("verbose", False))
            st.count("searches_with_positional_arguments")
        else:
            res = mofun.find_pattern_in_structure(atoms, patoms, **kw)
    except Exception as e:
        if type(e).__name__ == "PostBroken":
            raise
        ctx.fail("%ssearch raised %s: %s" % (label, type(e).__name__, str(e)[:200]), witness=w)
        return None
    st.count("searches")
    reported = [tuple(int(i) for i in m) for m in res]
    keys = [tuple(sorted(m)) for m in reported]
    groups = ref["groups"]
    occ = {k for k, g in groups.items() if g["cls"] == "occ"}
    gray = {k for k, g in groups.items() if g["cls"] == "gray"}
    st.count("clear_occurrences", len(occ))
    st.count("gray_groups", len(gray))
    if len(set(keys)) != len(keys):
        dup = sorted({k for k in keys if keys.count(k) > 1})
        ctx.fail("%sthe atom group %s is reported %d times" % (label, dup[0], keys.count(dup[0])), witness=dict(w, reported=reported))
    missing = sorted(occ - set(keys))
    if missing:
        g = groups[missing[0]]
        ctx.fail("%soccurrence %s (best-fit residual %.3g = %.2f*atol) is not reported; reported %s" % (label, missing[0], g["best_max"], g["best_max"] / atol, sorted(set(keys))[:6]),
                 witness=dict(w, reported=reported, missing=missing))
    for k in sorted(set(keys)):
        g = groups.get(k)
        if g is None:
            ctx.fail("%sreported group %s is not even a candidate: its pair distances differ from the pattern's by more than %.1f*atol" % (label, k, refmatch.PREFILTER),
                     witness=dict(w, reported=reported))
        elif g["cls"] == "non":
            ctx.fail("%sreported group %s lies clearly outside the tolerance: no proper rigid motion fits better than RMS %.3g (atol %.3g)" % (label, k, g["best_rms"], atol),
                     witness=dict(w, reported=reported))
    if not gray and len(set(keys)) == len(keys) and not missing and len(keys) != len(occ):
        ctx.fail("%s%d matches reported for %d distinct occurrences" % (label, len(keys), len(occ)), witness=dict(w, reported=reported))
    return reported, ref, occ, gray


def run_case(case, ctx):
    rng = np.random.default_rng(case["s"])
    st = ctx.stats
    pat = patterns.make(rng, case["pattern"])
    atol = case["atol"]
    if case.get("thin"):
        import mofun
        t = thin_case(rng, pat, atol)
        if t is None:
            st.count("thin_cell_not_applicable_(pattern too round)")
            return
        atoms, cell, groups = t
        w = {"kind": "cell narrower than the pattern in one direction", "cell": np.round(cell, 4).tolist(), "pattern_class": pat["cls"], "pattern_elements": pat["elements"],
             "pattern_positions": np.round(pat["positions"], 5).tolist(), "atol": atol, "planted": groups,
             "elements": elements_of(atoms), "positions": np.round(np.asarray(atoms.positions, float), 5).tolist()}
        events.seed_all(case["s"])
        try:
            res = mofun.find_pattern_in_structure(atoms, patterns.to_atoms(pat), atol=atol)
        except Exception as e:
            if type(e).__name__ == "PostBroken":
                raise
            ctx.fail("search in a cell narrower than the pattern raised %s: %s" % (type(e).__name__, str(e)[:160]), witness=w)
            return
        reported = [tuple(int(i) for i in m) for m in res]
        keys = [tuple(sorted(m)) for m in reported]
        for g in groups:
            if tuple(sorted(g)) not in keys:
                ctx.fail("in a cell narrower (%.2f A) than the pattern is long, the copy on atoms %s is not reported; reported %s" % (cell[0, 0], tuple(sorted(g)), sorted(set(keys))[:5]), witness=w)
        for m in reported:
            if len(set(m)) != len(m):
                ctx.fail("a reported match lists an atom twice: %s" % (m,), witness=w)
        if len(set(keys)) != len(keys):
            ctx.fail("an atom group is reported more than once: %s" % sorted(k for k in set(keys) if keys.count(k) > 1)[:2], witness=w)
        st.count("searches_in_cells_narrower_than_the_pattern")
        st.count("copies_in_cells_narrower_than_the_pattern", len(groups))
        ctx.nontrivial(["thin", case["s"]])
        return
    decoys = list(case["decoys"])
    EXT = {"C": ["Cl", "Cu", "Co", "Ca"], "N": ["Ni", "Na"], "O": ["Os"], "S": ["Si", "Sn"], "H": ["Hf", "He"], "B": ["Br", "Ba"], "F": ["Fe"], "P": ["Pt", "Pd"]}
    if case["s"] % 6 == 4 and pat["elements"][0] in EXT and len(pat["elements"]) >= 2:
        # the pattern's first atom becomes an element whose symbol BEGINS with another element's (Cl, Ni, Si, Br ...); a look-alike
        # group with that other element in first place (C, N, S, B) is planted beside the real copies
        pat["elements"] = [EXT[pat["elements"][0]][case["s"] // 6 % len(EXT[pat["elements"][0]])]] + list(pat["elements"][1:])
        decoys.append("first_element_prefix")
    built = planted.build(rng, pat, case["cell"], atol, n_copies=len(case["crossings"]), crossings=case["crossings"], poses=case["poses"],
                          decoys=decoys, n_bystanders=int(rng.integers(0, 8)), n_distractors=int(rng.integers(0, 4)))
    if case.get("arm"):
        pat = dict(pat, cls=pat["cls"] + "/arm", elements=[pat["elements"][1], pat["elements"][0]], positions=np.array([pat["positions"][1], pat["positions"][0]], float),
                   continuous_symmetry="line", chiral=False)
    r = search_and_judge(ctx, st, case, pat, built, atol)
    if r is None:
        return
    reported, ref, occ, gray = r
    if case.get("arm"):
        cnt = {}
        for k in occ:
            cnt[k[0]] = cnt.get(k[0], 0) + 1
            cnt[k[1]] = cnt.get(k[1], 0) + 1
        if any(v >= 2 for v in cnt.values()):
            st.count("searches_whose_clear_occurrences_share_an_atom")
        ctx.nontrivial(["arm", case["s"]])
        return
    keys = {tuple(sorted(m)) for m in reported}
    cg = "ortho" if case["cell"].startswith("ortho") else "tri"
    straddle = False
    for grp, cr, pose in zip(built["planted"], built["crossings"], built["poses"]):
        k = tuple(sorted(grp))
        if k in occ and k in keys:
            st.seen("accepted_occurrence", "%s/%d-faces" % (case["cell"], cr))
            st.seen("accepted_cellgroup_faces", "%s/%d" % (cg, cr))
            st.seen("accepted_pose", pose)
            st.seen("accepted_pattern_class", pat["cls"])
            straddle |= cr > 0
    for d, grp in built["decoy_groups"]:
        k = tuple(sorted(grp))
        cls = ref["groups"].get(k, {"cls": "not-a-candidate"})["cls"]
        if k not in keys and cls in ("non", "not-a-candidate"):
            st.seen("rejected_decoy", d)
            st.count("rejected_decoy.%s" % d)
        st.seen("decoy_reference_class", "%s:%s" % (d, cls))
    st.seen("pattern_frame", pat.get("frame", "random"))
    st.seen("atol", atol)
    st.seen("schedule", case["schedule"])
    for grp, pose in zip(built["planted"], built["poses"]):
        if tuple(sorted(grp)) in occ and tuple(sorted(grp)) in keys and pose.endswith("_exact"):
            st.seen("accepted_exact_pose_in_frame", "%s/%s" % (pose, pat.get("frame", "random")))
    if (occ and straddle) or built["decoy_groups"]:
        ctx.nontrivial(case["s"])
    # the same object, edited where it is, searched again: judged against the reference matcher run on the new state
    for rep in range(2):
        desc = inplace.edit_structure(rng, built["atoms"], kind=None if rep else "translate_wrap")
        r2 = search_and_judge(ctx, st, case, pat, built, atol, label="after in-place %s: " % desc[0])
        if r2 is not None:
            st.count("searches_after_inplace_edit")
            st.count("occurrences_after_inplace_edit", len(r2[2]))
            st.seen("inplace_edit", desc[0])
    if occ and straddle and len(built["atoms"]) <= 16:
        ctx.sample({"case": {k: case[k] for k in ("cell", "pattern", "atol", "crossings", "poses", "decoys", "schedule")},
                    "cell": np.round(built["cell"], 3).tolist(), "n_atoms": len(built["atoms"]), "planted": built["planted"],
                    "reference_groups": {str(k): v["cls"] for k, v in ref["groups"].items()}, "reported": reported})


def requirements(stats, tier):
    need = []
    for cg in ("ortho", "tri"):
        for f in range(4):
            if not stats.has("accepted_cellgroup_faces", "%s/%d" % (cg, f)):
                need.append("no accepted occurrence straddling %d faces in a %s cell" % (f, cg))
    have = stats.sets.get("accepted_occurrence", set())
    for cls in planted.CELL_CLASSES:
        if not any(h.startswith(cls + "/") for h in have):
            need.append("no accepted occurrence in cell class %s" % cls)
    if stats.get("searches_whose_clear_occurrences_share_an_atom") < (20 if tier == "quick" else 2000):
        need.append("searches whose clear occurrences share an atom: %d" % stats.get("searches_whose_clear_occurrences_share_an_atom"))
    if stats.get("rejected_decoy.bent") < (10 if tier == "quick" else 1000):
        need.append("bent look-alikes of an almost linear pattern rejected: %d" % stats.get("rejected_decoy.bent"))
    for d in ("mirror", "near_miss", "first_element_prefix"):
        if not stats.has("rejected_decoy", d):
            need.append("no rejected %s decoy observed" % d)
    if stats.nseen("accepted_pattern_class") < len(patterns.CLASSES):
        need.append("accepted occurrences for only %d of %d pattern classes" % (stats.nseen("accepted_pattern_class"), len(patterns.CLASSES)))
    if stats.nseen("accepted_pose") < len(planted.POSES):
        need.append("accepted occurrences for only %d pose classes" % stats.nseen("accepted_pose"))
    if sum(1 for x in stats.sets.get("accepted_exact_pose_in_frame", ()) if x.startswith("axis_antiparallel_exact/axis")) < 3:
        need.append("exactly antiparallel copies of patterns whose search axis lies along a signed coordinate axis: %s" % sorted(stats.sets.get("accepted_exact_pose_in_frame", ())))
    if stats.get("occurrences_after_inplace_edit") < (300 if tier == "quick" else 20000) or stats.nseen("inplace_edit") < 4:
        need.append("searches of an object edited in place since its last search: %d clear occurrences, edit kinds %s" %
                    (stats.get("occurrences_after_inplace_edit"), sorted(stats.sets.get("inplace_edit", []))))
    if stats.get("searches_preceded_by_a_search_for_something_shorter") < 100:
        need.append("searches of an unmodified object that was searched before for something shorter: %d" % stats.get("searches_preceded_by_a_search_for_something_shorter"))
    if stats.get("searches_with_positional_arguments") < 20:
        need.append("searches with every option given by position: %d" % stats.get("searches_with_positional_arguments"))
    if stats.get("searches_with_verbose_output") < 20 or stats.get("searches_relying_on_the_default_tolerance") < 20:
        need.append("call forms: %d verbose searches, %d relying on the default tolerance" % (stats.get("searches_with_verbose_output"), stats.get("searches_relying_on_the_default_tolerance")))
    if stats.get("copies_in_cells_narrower_than_the_pattern") < (40 if tier == "quick" else 3000):
        need.append("copies found in cells narrower than the pattern: %d" % stats.get("copies_in_cells_narrower_than_the_pattern"))
    if stats.get("searches") < (500 if tier == "quick" else 45000):
        need.append("too few searches: %d" % stats.get("searches"))
    if stats.get("contract_eval.C01.in_domain") < stats.get("searches"):
        need.append("the search postcondition was evaluated fewer times than searches were made")
    return need
