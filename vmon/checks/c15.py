"""C15 - P1 CIF files round-trip."""
import io
import re
import warnings

import numpy as np

from vmon.gen import atomsgen
from vmon.oracle import cifcmp
from vmon.oracle import geometry as G

PROPERTY = "C15"
RULE = ("Generated structures (1-12 atoms; orthorhombic, LAMMPS-triclinic, arbitrarily rotated, right-angled in a rotated frame (random, quarter turn, permuted axes, sqrt2 x sqrt2 setting) and almost orthorhombic (angles 1e-5..5e-3 degrees from 90) cells; coordinates "
        "inside, outside and exactly on the cell boundary; bonds/angles/dihedrals/impropers; extra per-atom, per-bond, "
        "per-angle and per-torsion columns; fractional or Cartesian output). t1=save(a), b=load(t1), t2=save(b), "
        "t3=save(load(t2)): b is compared with a field by field (fractional coordinates modulo 1 to half the printed "
        "unit), t2 with t1 and t3 with t2 token-wise (byte-wise for orthorhombic cells with atoms strictly inside), "
        "ASE's CIF reader must agree with mofun's on cell and positions, and reading variants built from mofun's own "
        "file at token level - (su) parentheses on cell and coordinate numbers, numbers in exponent notation, 'P1' spelling, no symmetry tag, "
        "non-P1 space-group names incl. the full monoclinic symbols that begin with 'P 1' (must be rejected) - are loaded. History: the written object is edited where it is and written again to a path that was "
        "already written and read once; the reading of that path is compared with the object as it is then. Non-trivial: triclinic cell or out-of-cell "
        "coordinates or at least two loops with extra columns; distinct by generator seed.")
ASSUMPTIONS = ["PyCifRW 5.0.1 is the only CIF library version observable here", "extra column labels are lower-case CIF data names (CIF names are case-insensitive; the reader lower-cases them)",
               "improper extra columns are not part of a CIF (the torsion loop carries the dihedral columns only)"]
ANCHOR_FUNCS = [("mofun/atoms.py", "Atoms.save_p1_cif"), ("mofun/atoms.py", "Atoms.load_p1_cif"), ("mofun/atoms.py", "Atoms.cell_abc_alpha_beta_gamma")]
REQUIRED_LINES = [("mofun/atoms.py", "positions %= 1.0"), ("mofun/atoms.py", 'coords_labels = ["_atom_site_Cartn_x"'),
                  ("mofun/atoms.py", "only supports P1 CIFs"), ("mofun/atoms.py", "torsion_fields[0:len(self.dihedrals), :] = self.extra_dihedral_fields")]
JOBS = {"quick": 4, "thorough": 16}
HALF4 = 0.5e-4 + 1e-9


def cases(tier, seed):
    rng = np.random.default_rng([15, seed])
    n = 200 if tier == "quick" else 60000
    out = []
    for j in range(n):
        cell = ["ortho", "tri", "rotated", "tri", "tiny_tilt", "ortho", "rotated", "rotated_ortho"][j % 8]
        mode = "fract" if (j // 3) % 3 else "cart"
        if mode == "cart" and cell in ("rotated", "rotated_ortho"):
            mode = "fract"
        out.append({"s": int(rng.integers(1 << 30)), "cell": cell, "mode": mode, "where": ["inside", "outside", "boundary", "upper_face"][(j // 9) % 4]})
    # more than 9999 atoms of one element: atom labels get a fifth digit
    for j in range(1 if tier == "quick" else 6):
        out.append({"s": int(rng.integers(1 << 30)), "cell": "ortho", "mode": ["fract", "cart"][j % 2], "where": "inside", "many_atoms": 10060 + 40 * j})
    return out


def build(rng, case):
    if case.get("many_atoms"):
        from mofun import Atoms
        n = case["many_atoms"]
        cellm = np.diag(rng.uniform(60.0, 80.0, 3))
        els = ["Zn"] * n
        for i in rng.choice(n, size=20, replace=False):
            els[int(i)] = "O"
        top = [int(x) for x in range(n - 12, n)]
        return Atoms(elements=els, positions=rng.uniform(0.01, 0.99, (n, 3)).dot(cellm), cell=cellm, charges=np.round(rng.uniform(-1, 1, n), 3),
                     bonds=[(top[0], top[1]), (999, top[2]), (top[3], 1000), (5, 6), (top[10], top[11])], bond_types=[0] * 5,
                     angles=[(top[4], top[5], top[6]), (1, top[7], 2)], angle_types=[0, 0],
                     dihedrals=[(top[8], top[9], top[10], top[11])], dihedral_types=[0])
    n = int(rng.integers(1, 13))
    if case["cell"] == "tiny_tilt":
        # almost orthorhombic: angles 1e-5 .. 5e-3 degrees away from 90 (a printed angle of 90.0000 must mean 90 +- 5e-5)
        cellm = atomsgen.random_cell(rng, "ortho", scale=9.0)
        for (i, j) in ((1, 0), (2, 0), (2, 1)):
            if rng.integers(3):
                cellm[i, j] = float(rng.choice([-1, 1])) * cellm[i, i] * np.radians(10 ** rng.uniform(-5, -2.3))
    else:
        cellm = atomsgen.random_cell(rng, case["cell"], scale=9.0)
    if case["cell"] == "ortho" and case["s"] % 5 in (2, 4):
        # a right-angled box whose vectors point along -x, -y or -z (a left-handed or a turned setting, legal): lengths are lengths
        sg = np.ones(3)
        sg[int(rng.integers(3))] = -1.0
        if rng.integers(2):
            sg[int(rng.integers(3))] = -1.0
        cellm = np.array(cellm, float) * sg[:, None]
        case["_negative_axes"] = True
    if case["cell"] in ("ortho", "tri") and case["s"] % 4 == 1:
        # a cell typed with whole numbers (integer array / nested list of ints)
        cellm = np.array(np.round(cellm), dtype=int)
        case["_whole_number_cell"] = True
    extras = {}
    for kind, pool in (("atom", ["_atom_site_occupancy", "_atom_site_vmon_tag"]), ("bond", ["_geom_bond_distance", "_ccdc_geom_bond_type"]),
                       ("angle", ["_geom_angle", "_geom_angle_vmon"]), ("dihedral", ["_geom_torsion", "_geom_torsion_vmon"])):
        extras[kind] = [l for l in pool if rng.integers(3) == 0]
    extras["improper"] = []
    kinds = {k: int(rng.integers(0, 5)) for k in atomsgen.KNAMES}
    a = atomsgen.gen_atoms(rng, n, tag="s", cell=cellm, kinds=kinds, tables={k: False for k in atomsgen.KNAMES}, extras=extras, pair=False)
    if case["s"] % 4 == 3:
        # extra columns holding numbers as a program building the structure leaves them (0, 0.0, 1, 2.5, -3 - not their text)
        for kind in ("atom", "bond", "angle", "dihedral"):
            xf = getattr(a, "extra_%s_fields" % kind)
            if len(getattr(a, "extra_%s_labels" % kind)) and len(xf):
                arr = np.array(xf, dtype=object)
                vals = [0, 0.0, 1, 2.5, -3, 0]
                for r in range(arr.shape[0]):
                    arr[r, int(rng.integers(arr.shape[1]))] = vals[(r + int(rng.integers(2))) % len(vals)]
                setattr(a, "extra_%s_fields" % kind, arr)
                case["_numeric_extras"] = True
    if case["where"] == "inside":
        f = rng.uniform(0.01, 0.99, (n, 3))
    elif case["where"] == "outside":
        f = rng.uniform(-1.6, 2.6, (n, 3))
    elif case["where"] == "upper_face":
        # nothing outside the cell, but some atoms exactly on its upper faces (fractional 1, or so close that 1.0000 is printed)
        f = rng.uniform(0.01, 0.99, (n, 3))
        for i in range(0, n, 2):
            f[i, int(rng.integers(3))] = float(rng.choice([1.0, 0.99996, 1.0, 0.0]))
    else:
        f = rng.uniform(0.01, 0.99, (n, 3))
        for i in range(n):
            f[i, int(rng.integers(3))] = float(rng.choice([0.0, 1.0, -1.0, 0.99996, -0.00004, 2.0]))
    a.positions = f.dot(cellm)
    a.charges = np.round(rng.uniform(-2, 2, n), int(rng.integers(1, 9)))
    return a


def save(a, mode):
    import mofun.atoms  # noqa
    f = io.StringIO()
    import contextlib
    with contextlib.redirect_stdout(io.StringIO()):
        flag = mode == "fract"
        if len(a) % 4 == 2:
            flag = np.bool_(flag)           # the flag as a comparison of arrays yields it, e.g. np.isfinite(cell).all()
        elif len(a) % 4 == 3:
            flag = int(flag)                # ... or as 1 / 0
        if len(a) % 3 == 1:
            a.save_p1_cif(f, "structure", flag)            # by position, documented order
        else:
            a.save_p1_cif(f, use_fract_coords=flag)
    return f.getvalue()


def load(text, how=0):
    """how: 0 load_p1_cif(file object), 1 Atoms.load(str path), 2 Atoms.load(pathlib path), 3 Atoms.load(file object, 'cif')"""
    from mofun import Atoms
    if how == 0:
        return Atoms.load_p1_cif(io.StringIO(text))
    if how == 3:
        return Atoms.load(io.StringIO(text), filetype="cif")
    import os
    import pathlib
    import shutil
    import tempfile
    from vmon.oracle.util import worker_dir
    name = ["x.cif", "x.cif", "x.cif.tmp", "x.txt", "x.lmpdat"][len(text) % 5]       # the extension need not say "cif" when the format is named explicitly
    p = os.path.join(worker_dir(), name)           # the same path from case to case, each time with other content
    if name != "x.cif":
        with open(p, "w") as f:
            f.write(text)
        return Atoms.load(p if how == 1 else pathlib.Path(p), filetype="cif")
    from vmon.oracle.util import prime_path
    prime_path(p)
    with open(p, "w") as f:
        f.write(text)
    return Atoms.load(p if how == 1 else pathlib.Path(p))


def circ(d):
    return np.abs((d + 0.5) % 1.0 - 0.5)


def _same_rows(x, y):
    """row by row the same atoms in the same sequence, read forwards or backwards (i-j-k is the angle k-j-i)"""
    return all(list(r) == list(q) or list(r) == list(q)[::-1] for r, q in zip(x.tolist(), y.tolist()))


def compare_loaded(b, a, mode, fail):
    if list(b.elements) != list(a.elements):
        fail("elements/order differ: %s vs %s" % (list(b.elements)[:8], list(a.elements)[:8]), "elements")
        return
    pa, pb = np.array(a.cell_abc_alpha_beta_gamma(), float), np.array(b.cell_abc_alpha_beta_gamma(), float)
    ca, cb = np.array(a.cell, float), np.array(b.cell, float)
    la = np.linalg.norm(ca, axis=1)
    lb = np.linalg.norm(cb, axis=1)

    def ang(c):
        return np.array([np.degrees(np.arccos(np.clip(np.dot(c[i], c[j]) / np.linalg.norm(c[i]) / np.linalg.norm(c[j]), -1, 1))) for i, j in ((1, 2), (0, 2), (0, 1))])
    if np.abs(la - lb).max() > 1e-9 * la.max():
        fail("cell lengths %s, wrote %s" % (lb.tolist(), la.tolist()), "cell_lengths")
    if np.abs(ang(ca) - ang(cb)).max() > HALF4:
        fail("cell angles %s, wrote %s" % (ang(cb).tolist(), ang(ca).tolist()), "cell_angles")
    if mode == "fract":
        fa, fb = G.frac(ca, a.positions), G.frac(cb, b.positions)
        d = circ(fa - fb)
        if d.max() > HALF4:
            i = int(np.argmax(d.max(axis=1)))
            fail("fractional coordinates of atom %d read back as %s, wrote %s (mod 1)" % (i, fb[i].tolist(), fa[i].tolist()), "fract")
        # into the cell = into [0, 1): a coordinate of exactly 1 is the periodic image of 0 on the far face, not a position inside
        if fb.min() < -1e-9 or fb.max() > 1 - 1e-9:
            fail("reading did not wrap fractional coordinates into the cell [0, 1): %s" % fb[np.argmax(np.abs(fb - 0.5).max(axis=1))].tolist(), "wrap")
    else:
        d = np.abs(np.asarray(b.positions, float) - np.asarray(a.positions, float))
        if d.max() > HALF4:
            fail("Cartesian coordinates differ by %.3g" % d.max(), "cartn")
    if not np.array_equal(np.asarray(b.charges, float), np.asarray(a.charges, float)):
        fail("charges %s, wrote %s" % (list(b.charges)[:5], list(a.charges)[:5]), "charges")
    for kind, w in (("bond", 2), ("angle", 3)):
        x = np.asarray(getattr(b, atomsgen.ARR[kind])).reshape(-1, w)
        y = np.asarray(getattr(a, atomsgen.ARR[kind])).reshape(-1, w)
        if x.shape != y.shape or not _same_rows(x, y):
            fail("%s read back as %s, wrote %s" % (atomsgen.ARR[kind], x.tolist()[:4], y.tolist()[:4]), kind)
    want = np.concatenate([np.asarray(a.dihedrals).reshape(-1, 4), np.asarray(a.impropers).reshape(-1, 4)]).astype(int)
    got = np.asarray(b.dihedrals).reshape(-1, 4)
    if got.shape != want.shape or not _same_rows(got, want):
        fail("torsions read back as %s, wrote dihedrals+impropers %s" % (got.tolist()[:4], want.tolist()[:4]), "torsions")
    if len(b.impropers):
        fail("reader produced impropers", "torsions")
    for kind in ("atom", "bond", "angle"):
        if kind != "atom" and len(getattr(a, "%s_types" % kind)) == 0:
            continue   # no such loop is written, nothing to round-trip
        la_, lb_ = list(getattr(a, "extra_%s_labels" % kind)), list(getattr(b, "extra_%s_labels" % kind))
        if la_ != lb_:
            fail("extra %s labels %s, wrote %s" % (kind, lb_, la_), "extra_labels")
            continue
        x, y = np.asarray(getattr(b, "extra_%s_fields" % kind)), np.asarray(getattr(a, "extra_%s_fields" % kind))
        if la_ and (x.shape != y.shape or not np.all(x.astype(str) == y.astype(str))):
            fail("extra %s fields differ: %s vs %s" % (kind, x.tolist()[:3], y.tolist()[:3]), "extra_fields")
    la_, lb_ = list(a.extra_dihedral_labels), list(b.extra_dihedral_labels)
    if len(a.dihedrals) + len(a.impropers) == 0:
        pass
    elif la_ != lb_:
        fail("extra torsion labels %s, wrote %s" % (lb_, la_), "extra_labels")
    elif la_:
        y = np.concatenate([np.asarray(a.extra_dihedral_fields).reshape(-1, len(la_)).astype(str), np.full((len(a.impropers), len(la_)), ".")])
        x = np.asarray(b.extra_dihedral_fields).astype(str)
        if x.shape != y.shape or not np.all(x == y):
            fail("extra torsion fields differ: %s vs %s" % (x.tolist()[:3], y.tolist()[:3]), "extra_fields")


def su_variant(t1, rng):
    doc = cifcmp.parse(t1)
    items = []
    for tag, v in doc["items"]:
        if tag.lower().startswith("_cell_") and cifcmp.is_num(v):
            v = "%s(%d)" % (v, rng.integers(1, 99))
        items.append((tag, v))
    loops = []
    for tags, rows in doc["loops"]:
        cols = [i for i, t in enumerate(tags) if t.lower() in ("_atom_site_fract_x", "_atom_site_fract_y", "_atom_site_fract_z", "_atom_site_cartn_x", "_atom_site_cartn_y", "_atom_site_cartn_z")]
        rows2 = []
        for r in rows:
            r = list(r)
            for c in cols:
                if rng.integers(3) > 0:
                    r[c] = "%s(%d)" % (r[c], rng.integers(1, 30))
            rows2.append(r)
        loops.append((tags, rows2))
    return cifcmp.emit({"block": doc["block"], "items": items, "loops": loops})


def exp_variant(t1, rng):
    """the same file with some numbers in exponent notation (a legal CIF number form: 1.25E+1, 2.5e-1(3))"""
    doc = cifcmp.parse(t1)

    def expo(v, su):
        x = float(v)
        if x == 0:
            return v
        e = int(np.floor(np.log10(abs(x)))) + int(rng.integers(-1, 2))
        digits = len(v.split(".")[1]) if "." in v else 0
        mant = "%.*f" % (digits + max(e, 0) + 2, x / 10.0 ** e)
        if abs(float(mant) * 10.0 ** e - x) > 1e-12 * max(1.0, abs(x)):
            return v
        out = "%s%s%+d" % (mant, "E" if rng.integers(2) else "e", e)
        return out + ("(%d)" % rng.integers(1, 30) if su else "")
    items = []
    for tag, v in doc["items"]:
        if tag.lower().startswith("_cell_") and cifcmp.is_num(v) and rng.integers(2):
            v = expo(v, bool(rng.integers(2)))
        items.append((tag, v))
    loops = []
    for tags, rows in doc["loops"]:
        cols = [i for i, t in enumerate(tags) if t.lower() in ("_atom_site_fract_x", "_atom_site_fract_y", "_atom_site_fract_z", "_atom_site_cartn_x", "_atom_site_cartn_y", "_atom_site_cartn_z")]
        rows2 = []
        for r in rows:
            r = list(r)
            for c in cols:
                if rng.integers(2):
                    r[c] = expo(r[c], bool(rng.integers(3) == 0))
            rows2.append(r)
        loops.append((tags, rows2))
    return cifcmp.emit({"block": doc["block"], "items": items, "loops": loops})


def sg_variant(t1, name):
    doc = cifcmp.parse(t1)
    if name is None:
        items = [(t, v) for t, v in doc["items"] if not t.lower().startswith("_symmetry")]
    else:
        items = [(t, name if t == "_symmetry_space_group_name_H-M" else v) for t, v in doc["items"]]
    return cifcmp.emit({"block": doc["block"], "items": items, "loops": doc["loops"]})


def same_structure(x, y, tol=1e-9):
    return (list(x.elements) == list(y.elements) and np.allclose(np.array(x.cell, float), np.array(y.cell, float), rtol=0, atol=tol)
            and np.allclose(np.asarray(x.positions, float), np.asarray(y.positions, float), rtol=0, atol=tol)
            and np.array_equal(np.asarray(x.bonds), np.asarray(y.bonds)) and np.array_equal(np.asarray(x.dihedrals), np.asarray(y.dihedrals)))


def run_case(case, ctx):
    rng = np.random.default_rng(case["s"])
    st = ctx.stats
    a = build(rng, case)
    mode = case["mode"]
    w = {"mode": mode, "cell_kind": case["cell"], "where": case["where"], "structure": atomsgen.describe(a)}

    def fail(msg, cls):
        ctx.fail(msg, witness=dict(w, clause=cls))
    try:
        t1 = save(a, mode)
    except Exception as e:
        if type(e).__name__ == "PostBroken":
            raise
        fail("save_p1_cif raised %s: %s" % (type(e).__name__, str(e)[:200]), "save_raises")
        return
    st.count("files_written")
    # what the file itself states about the cell, read with the harness's own CIF tokenizer: three positive lengths, the norms of
    # the structure's cell vectors, and the three angles between them (to the printed precision)
    try:
        items = {t.lower(): v for t, v in cifcmp.parse(t1)["items"]}
        stated = [float(str(items[k]).split("(")[0]) for k in ("_cell_length_a", "_cell_length_b", "_cell_length_c", "_cell_angle_alpha", "_cell_angle_beta", "_cell_angle_gamma")]
        c0 = np.array(a.cell, float)
        ln = np.linalg.norm(c0, axis=1)
        an = [float(np.degrees(np.arccos(np.clip(np.dot(c0[i], c0[j]) / ln[i] / ln[j], -1, 1)))) for i, j in ((1, 2), (0, 2), (0, 1))]
        st.count("cell_tags_of_written_files_checked")
        if np.abs(np.array(stated[:3]) - ln).max() > 1e-4 * max(1.0, ln.max()):
            fail("the file states cell lengths %s, the structure's cell vectors have lengths %s" % (stated[:3], np.round(ln, 6).tolist()), "cell_tags")
        if np.abs(np.array(stated[3:]) - np.array(an)).max() > 1e-3:
            fail("the file states cell angles %s, the structure's cell vectors enclose %s" % (stated[3:], np.round(an, 5).tolist()), "cell_tags")
    except (KeyError, ValueError) as e:
        fail("cell tags of the written file cannot be read: %r" % (e,), "cell_tags")
    try:
        b = load(t1, how=case["s"] % 4)
        st.seen("load_form", case["s"] % 4)
    except Exception as e:
        if type(e).__name__ == "PostBroken":
            raise
        fail("load_p1_cif of mofun's own file raised %s: %s" % (type(e).__name__, str(e)[:200]), "load_raises")
        return
    compare_loaded(b, a, mode, fail)
    st.count("files_read_back")
    # the kind of coordinates asked for is the kind written (whatever truthy / falsy form the flag was given in)
    wrote_fract, wrote_cart = "_atom_site_fract_x" in t1, "_atom_site_Cartn_x" in t1
    if (mode == "fract") != wrote_fract or (mode != "fract") != wrote_cart:
        fail("%s coordinates were asked for (flag given as %s), the file has %s" % ("fractional" if mode == "fract" else "Cartesian", ["bool", "bool", "numpy.bool_", "int"][len(a) % 4],
                                                                                   "fractional" if wrote_fract else ("Cartesian" if wrote_cart else "neither")), "coordinate_kind")
    st.seen("flag_form", ["bool", "bool", "numpy.bool_", "int"][len(a) % 4])
    if case.get("_negative_axes"):
        st.count("right_angled_boxes_with_vectors_along_negative_axes")
    if case.get("_whole_number_cell"):
        st.count("structures_with_a_cell_of_whole_numbers")
    if case.get("_numeric_extras"):
        st.count("structures_with_numbers_in_extra_columns")
    if case.get("many_atoms"):
        # only the round trip itself for the big structure (the second readers and reading variants are quadratic in the atom count)
        t2 = save(b, mode)
        if t2.split() != t1.split() and mode == "fract":
            diff = [(x, y) for x, y in zip(t1.split("\n"), t2.split("\n")) if x.split() != y.split()][:2]
            fail("second write differs from the first: %s" % diff, "rewrite")
        st.count("structures_with_more_than_9999_atoms_of_one_element")
        ctx.nontrivial(case["s"])
        return
    t2 = save(b, mode)
    d1, d2 = cifcmp.parse(t1), cifcmp.parse(t2)
    for msg in cifcmp.compare(d1, d2)[:3]:
        fail("second write differs from first: %s" % msg, "rewrite")
    strictly_inside = case["where"] == "inside"
    if case["cell"] == "ortho" and strictly_inside and mode == "fract":
        st.count("byte_identity_required")
        if t2 != t1:
            diff = [(x, y) for x, y in zip(t1.split("\n"), t2.split("\n")) if x != y][:2]
            fail("second write is not byte-identical for an orthorhombic cell with atoms strictly inside: %s" % diff, "rewrite_bytes")
    t3 = save(load(t2), mode)
    for msg in cifcmp.compare(d2, cifcmp.parse(t3), frac_mod1=False)[:3]:
        fail("third write differs from second: %s" % msg, "rewrite2")
    st.count("rewrites_checked")
    # independent reader
    try:
        import ase.io
        with warnings.catch_warnings():
            warnings.simplefilter("ignore")
            aa = ase.io.read(io.StringIO(t1), format="cif")
        fb_ = G.frac(np.array(b.cell, float), np.asarray(b.positions, float))
        dd = circ(fb_[:, None, :] - fb_[None, :, :]).max(axis=2) + np.eye(len(fb_))
        if len(fb_) > 1 and dd.min() < 2e-3:
            # ASE's reader merges sites closer than 1e-3 in fractional coordinates (its symprec): not a second opinion here
            st.count("ase_not_consulted_(two sites within its merging distance)")
            raise LookupError("sites within ASE's merging distance")
        if np.abs(aa.cell.array - np.array(b.cell, float)).max() > 1e-6:
            fail("ASE reads cell %s, mofun %s" % (aa.cell.array.tolist(), np.array(b.cell).tolist()), "ase_cell")
        elif len(aa) != len(b) or G.equal_mod_lattice(np.array(b.cell, float), aa.positions, b.positions).max() > 1e-6:
            ctx.fail("ASE reads other positions than mofun from the same file (%d atoms vs %d)" % (len(aa), len(b)),
                     witness=dict(w, clause="ase_positions", file=t1, ase_scaled=aa.get_scaled_positions().tolist(),
                                  mofun_positions=np.asarray(b.positions, float).tolist()))
        if list(aa.symbols) != list(b.elements):
            fail("ASE reads elements %s, mofun %s" % (list(aa.symbols)[:6], list(b.elements)[:6]), "ase_elements")
        st.count("ase_agreed")
    except LookupError:
        pass
    except Exception as e:
        st.count("ase_reader_unusable")
        st.seen("ase_error", "%s: %s" % (type(e).__name__, str(e)[:80]))
    # reading variants
    try:
        bs = load(su_variant(t1, rng))
        if not same_structure(bs, b):
            fail("file with standard-uncertainty parentheses reads differently", "su")
        st.count("su_variants")
    except Exception as e:
        if type(e).__name__ == "PostBroken":
            raise
        fail("file with standard-uncertainty parentheses raised %s: %s" % (type(e).__name__, str(e)[:150]), "su")
    try:
        be = load(exp_variant(t1, rng))
        if not same_structure(be, b, tol=1e-7):
            fail("file with numbers in exponent notation reads differently", "exponent")
        st.count("exponent_variants")
    except Exception as e:
        if type(e).__name__ == "PostBroken":
            raise
        fail("file with numbers in exponent notation raised %s: %s" % (type(e).__name__, str(e)[:150]), "exponent")
    try:
        from vmon.oracle.util import Pipe
        from mofun import Atoms as _A
        bp = _A.load_p1_cif(Pipe(t1))
        if not same_structure(bp, b):
            fail("the same file read from a stream that cannot seek reads differently", "pipe")
        st.count("reads_from_a_stream_that_cannot_seek")
    except Exception as e:
        if type(e).__name__ == "PostBroken":
            raise
        fail("reading the file from a stream that cannot seek raised %s: %s" % (type(e).__name__, str(e)[:150]), "pipe")
    try:
        bc = load(t1.replace("\n", "\r\n"))
        if not same_structure(bc, b):
            fail("the same file with CRLF line ends reads differently", "crlf")
        st.count("crlf_variants")
    except Exception as e:
        if type(e).__name__ == "PostBroken":
            raise
        fail("the same file with CRLF line ends raised %s: %s" % (type(e).__name__, str(e)[:150]), "crlf")
    for name in ("P1", None):
        try:
            bv = load(sg_variant(t1, name))
            if not same_structure(bv, b):
                fail("variant with space-group name %r reads differently" % name, "sg_ok")
            st.count("p1_variants")
        except Exception as e:
            if type(e).__name__ == "PostBroken":
                raise
            fail("variant with space-group name %r raised %s" % (name, type(e).__name__), "sg_ok")
    # short symbols, and the full Hermann-Mauguin symbols of the monoclinic groups (unique axis b or c), which BEGIN with "P 1"
    bad_names = ["P 21/c", "F m -3 m", "P -1", "C 2/m", "I 41/a m d", "P 1 21/c 1", "P 1 2 1", "P 1 m 1", "P 1 21/n 1", "P 1 1 2", "P 1 c 1", "P 1 2/m 1",
                 "P 1 1 21/b", "P 121/c 1", "P12/m1", "P 1 21 1", "P 1 1 m", "P 1 1 2/b"]
    bad_name = bad_names[int(rng.integers(len(bad_names)))]
    if bad_name.replace(" ", "").startswith("P1"):
        st.count("non_p1_symbols_that_begin_with_P1")
    try:
        load(sg_variant(t1, bad_name))
        fail("a file declaring space group %r was accepted" % bad_name, "sg_rejected")
    except Exception as e:
        if type(e).__name__ == "PostBroken":
            raise
        st.count("non_p1_rejected")
    st.seen("class", "%s/%s/%s" % (case["cell"], mode, case["where"]))
    # history: the object that was written is edited where it is (sizes unchanged) and written again, to the SAME path that
    # was already written and read once; the second file / second reading must reflect the object as it is then
    if case["s"] % 2 == 1:
        # history on the object that was READ: strained (a new cell assigned, positions scaled with it), charges shifted, then
        # written and read again - what is written must be the object as it is now, not what the file it came from said
        strain = np.eye(3) + np.random.default_rng(case["s"]).uniform(-0.08, 0.08, (3, 3)) * (0.0 if case["cell"] == "tiny_tilt" else 1.0)
        strain[np.triu_indices(3, 1)] = 0.0 if case["cell"] == "ortho" else strain[np.triu_indices(3, 1)]
        strain = strain * np.array([1.25, 0.8, 1.1])[None, :]
        newcell = np.array(b.cell, float).dot(strain)
        fr = G.frac(np.array(b.cell, float), np.asarray(b.positions, float))
        if case["s"] % 4 == 1:
            b.cell = newcell
        else:
            b.cell = newcell.tolist()
        b.positions = fr.dot(newcell)
        b.charges = np.asarray(b.charges, float) + 0.125
        w3 = dict(w, history="the re-read structure was strained (new cell assigned) and written again")

        def fail3(msg, cls):
            ctx.fail("write/read of the re-read structure after assigning it a new cell: %s" % msg, witness=dict(w3, clause=cls, new_cell=np.round(newcell, 6).tolist()))
        try:
            t5 = save(b, mode)
            b5 = load(t5, how=case["s"] % 4)
            compare_loaded(b5, b, mode, fail3)
            st.count("second_writes_of_a_read_structure_after_a_new_cell_was_assigned")
        except Exception as e:
            if type(e).__name__ == "PostBroken":
                raise
            fail3("raised %s: %s" % (type(e).__name__, str(e)[:200]), "strained_write_raises")
    if case["s"] % 2 == 0:
        import os
        import shutil
        import tempfile
        from mofun import Atoms
        a.positions *= 0.5
        a.charges += 0.25
        if len(a) >= 2:
            a.atom_types[[0, -1]] = a.atom_types[[-1, 0]]
        if isinstance(a.cell, np.ndarray) and case["cell"] != "tiny_tilt":
            a.cell[0] *= 1.5
        for kind in ("bond", "angle"):
            arr = getattr(a, atomsgen.ARR[kind])
            if len(arr) >= 2:
                arr[[0, -1]] = arr[[-1, 0]]
                xf = getattr(a, "extra_%s_fields" % kind)
                if len(xf) == len(arr):
                    xf[[0, -1]] = xf[[-1, 0]]
        w2 = dict(w, history="edited in place after the first write", structure_now=atomsgen.describe(a))

        def fail2(msg, cls):
            ctx.fail("second write/read of the same object at the same path after an in-place edit: %s" % msg, witness=dict(w2, clause=cls))
        d = tempfile.mkdtemp(prefix="vmon-c15-")
        try:
            name = ["same.cif", "same.cif.bak", "same.txt", "same.cif", "same.lmpdat"][case["s"] // 2 % 5]
            ft = {} if name == "same.cif" else {"filetype": "cif"}
            pth = os.path.join(d, name)
            with open(pth, "w") as fh:
                fh.write(t1)
            Atoms.load(pth, **ft)
            import contextlib
            with contextlib.redirect_stdout(io.StringIO()):
                a.save(pth, use_fract_coords=(mode == "fract"), **ft)
            b4 = Atoms.load(pth, **ft)
            st.seen("explicit_filetype_on_path", name)
            compare_loaded(b4, a, mode, fail2)
            st.count("second_writes_after_edit")
        except Exception as e:
            if type(e).__name__ == "PostBroken":
                raise
            fail2("raised %s: %s" % (type(e).__name__, str(e)[:200]), "second_write_raises")
        finally:
            shutil.rmtree(d, ignore_errors=True)
    tel = [a.atom_type_elements[int(t)] for t in sorted(set(int(x) for x in a.atom_types))]
    if len(set(tel)) < len(tel):
        st.count("structures_with_two_atom_types_of_one_element")
        if sum(len(getattr(a, "%s_types" % k)) for k in atomsgen.KNAMES):
            st.count("structures_with_two_atom_types_of_one_element_and_terms")
    nx = sum(1 for k in ("atom", "bond", "angle", "dihedral") if len(getattr(a, "extra_%s_labels" % k)) and (k == "atom" or len(getattr(a, "%s_types" % k))))
    for k in ("atom", "bond", "angle", "dihedral"):
        if len(getattr(a, "extra_%s_labels" % k)) and (k == "atom" or len(getattr(a, "%s_types" % k))):
            st.seen("extra_columns", k)
    if len(a.impropers) and len(a.extra_dihedral_labels):
        st.count("impropers_with_torsion_columns")
    if len(a.impropers):
        st.count("with_impropers")
    if case["cell"] != "ortho" or case["where"] != "inside" or nx >= 2:
        ctx.nontrivial(case["s"])
    if case["cell"] == "tri" and nx >= 1:
        ctx.sample({"case": {k: case[k] for k in ("cell", "mode", "where")}, "structure": atomsgen.describe(a), "file_head": t1.split("\n")[:26]})


def requirements(stats, tier):
    need = []
    if stats.get("second_writes_of_a_read_structure_after_a_new_cell_was_assigned") < (40 if tier == "quick" else 4000):
        need.append("re-read structures written again after a new cell was assigned: %d" % stats.get("second_writes_of_a_read_structure_after_a_new_cell_was_assigned"))
    if stats.get("structures_with_numbers_in_extra_columns") < (10 if tier == "quick" else 2000):
        need.append("structures whose extra columns hold numbers (0, 0.0, 2.5 ...): %d" % stats.get("structures_with_numbers_in_extra_columns"))
    if stats.get("structures_with_a_cell_of_whole_numbers") < (10 if tier == "quick" else 2000):
        need.append("structures whose cell is typed with whole numbers: %d" % stats.get("structures_with_a_cell_of_whole_numbers"))
    if stats.get("files_read_back") < (180 if tier == "quick" else 50000):
        need.append("too few files read back: %d" % stats.get("files_read_back"))
    if stats.nseen("class") < 18:
        need.append("only %d of 18 (cell x mode x placement) classes observed" % stats.nseen("class"))
    if stats.get("second_writes_after_edit") < (60 if tier == "quick" else 20000):
        need.append("second writes of an edited object to an already used path: %d" % stats.get("second_writes_after_edit"))
    if stats.get("structures_with_more_than_9999_atoms_of_one_element") < 1:
        need.append("no structure with more than 9999 atoms of one element")
    if stats.nseen("explicit_filetype_on_path") < 4:
        need.append("paths whose extension is not .cif, with filetype='cif': %s" % sorted(stats.sets.get("explicit_filetype_on_path", [])))
    if stats.nseen("extra_columns") < 4:
        need.append("extra columns not observed on all four loops")
    if stats.get("impropers_with_torsion_columns") < 3:
        need.append("impropers together with extra torsion columns observed fewer than 3 times")
    if stats.get("structures_with_two_atom_types_of_one_element_and_terms") < 10:
        need.append("structures in which two atom types share an element (and terms exist): %d" % stats.get("structures_with_two_atom_types_of_one_element_and_terms"))
    if stats.get("cell_tags_of_written_files_checked") < 0.9 * stats.get("files_written"):
        need.append("cell tags of written files checked: %d of %d" % (stats.get("cell_tags_of_written_files_checked"), stats.get("files_written")))
    if stats.get("right_angled_boxes_with_vectors_along_negative_axes") < (8 if tier == "quick" else 2000):
        need.append("right-angled boxes with vectors along negative axes: %d" % stats.get("right_angled_boxes_with_vectors_along_negative_axes"))
    if stats.get("non_p1_symbols_that_begin_with_P1") < 40:
        need.append("non-P1 symbols that begin with 'P 1': %d" % stats.get("non_p1_symbols_that_begin_with_P1"))
    if stats.get("non_p1_rejected") < 50 or stats.get("su_variants") < 50 or stats.get("exponent_variants") < 50:
        need.append("reading variants not exercised")
    if stats.get("ase_agreed") + stats.get("ase_not_consulted_(two sites within its merging distance)") < 0.8 * stats.get("files_written"):
        need.append("ASE usable for only %d of %d files (%s)" % (stats.get("ase_agreed"), stats.get("files_written"), sorted(stats.sets.get("ase_error", []))[:2]))
    return need
