"""C18 - UFF parameters follow the published formulas for every type combination."""
import itertools
import math

import numpy as np

from vmon.oracle import uffref

PROPERTY = "C18"
RULE = ("Pairs: all 221^2 ordered type pairs x bond orders {guessed,1,1.5,2} x user bond-order rules, pair coefficients "
        "for all 221 types (exhaustive in both tiers). Triples: quick = for every central type 230 random outer pairs "
        "(~50 000) x 3 bond-order settings; thorough = all 221^3. Quadruples: thorough = all 221^2 central pairs x one "
        "representative outer type per hybridisation class on each side x multiplicities {1,2,3,6,9}, plus 4*10^6 uniformly "
        "random full quadruples with multiplicity 1-9; quick = a 2% slice of the central pairs and 30 000 random "
        "quadruples. Every evaluation compares the real function with the harness's reference formulas (1e-9 "
        "relative), checks style, finiteness, positivity, and equality under reversal of the type sequence incl. the "
        "None / raises classification. A case is a batch; non-trivial if it contains a combination that is not all "
        "the same type; distinct by batch descriptor. NOT exhaustive over 221^4: quadruples are exhaustive only over "
        "the stated quotient (outer atoms by hybridisation class).")
ASSUMPTIONS = ["UFF4MOF and MAIN_GROUP_ELEMENTS are the property's given data", "the angle force constant uses the corrected (Towhee) form fixed by the repository's pinned normative test",
               "bond orders are positive"]
ANCHOR_FUNCS = [("mofun/rough_uff.py", "bond_params"), ("mofun/rough_uff.py", "angle_params"), ("mofun/rough_uff.py", "dihedral_params"),
                ("mofun/rough_uff.py", "guess_bond_order"), ("mofun/rough_uff.py", "pair_coeffs")]
REQUIRED_LINES = [("mofun/rough_uff.py", 'print("exception: both oxys")'), ("mofun/rough_uff.py", 'print("exception: sp2 to another sp2")'),
                  ("mofun/rough_uff.py", 'print("exception: sp3 oxy, sp2/resonant other")'), ("mofun/rough_uff.py", "n = 6\n"),
                  ("mofun/rough_uff.py", "elif theta0deg == 90. and a2_coord_is_4:"), ("mofun/rough_uff.py", "c2 = 1 / (4 * sin(theta0rad)**2)")]
JOBS = {"quick": 4, "thorough": 16}
RULESETS = [None, [({"N_1"}, 2), ({"N_1", "N_2"}, 2)], [({"C_R", "O_2"}, 1.5), ({"Zr8f4", "O_2"}, 0.5), ({"C_2"}, 1)],
            # rules that name the one-letter elements' types (written with a padding underscore in the table) and a fractional order
            [({"H_", "O_3"}, 2), ({"K_", "O_2"}, 1.5), ({"F_"}, 0.5), ({"I_", "C_3"}, 0.25), ({"H_"}, 1.5)]]
BOS = [None, 1, 1.5, 2]
MULTS = [1, 2, 3, 6, 9]
REL = 1e-9


# the main-group elements (groups 1, 2, 13-18) are a fact of the periodic table, not part of the parameter table: the reference
# carries its own list and never reads (or iterates) the one of the code under observation
MAIN_GROUP = frozenset("H He Li Be B C N O F Ne Na Mg Al Si P S Cl Ar K Ca Ga Ge As Se Br Kr Rb Sr In Sn Sb Te I Xe Cs Ba Tl Pb Bi Po At Rn Fr Ra".split())


def T():
    from mofun.uff4mof import UFF4MOF
    return UFF4MOF, MAIN_GROUP


def types():
    return list(T()[0].keys())


def exhaustive(tier):
    return False


def cases(tier, seed):
    rng = np.random.default_rng([18, seed])
    ts = types()
    n = len(ts)
    out = [{"kind": "pairs", "i": i} for i in range(n)]
    out.append({"kind": "paircoeffs"})
    if tier == "quick":
        for j in range(n):
            out.append({"kind": "triples_random", "j": j, "count": 230, "s": int(rng.integers(1 << 30))})
        sl = rng.choice(n * n, size=int(0.02 * n * n), replace=False)
        for chunk in np.array_split(sl, 12):
            out.append({"kind": "quads_quotient", "central": [int(x) for x in chunk]})
        for k in range(12):
            out.append({"kind": "quads_random", "count": 2500, "s": int(rng.integers(1 << 30))})
    else:
        for j in range(n):
            for i0 in range(0, n, 56):
                out.append({"kind": "triples_all", "j": j, "i0": i0, "i1": min(n, i0 + 56)})
        allc = np.arange(n * n)
        for chunk in np.array_split(allc, 400):
            out.append({"kind": "quads_quotient", "central": [int(x) for x in chunk]})
        for k in range(400):
            out.append({"kind": "quads_random", "count": 10000, "s": int(rng.integers(1 << 30))})
    return out


def close(x, y):
    if isinstance(x, str) or isinstance(y, str):
        return x == y
    if x == y:
        return True
    return abs(x - y) <= REL * max(abs(x), abs(y))


def same_tuple(a, b):
    return a is not None and b is not None and len(a) == len(b) and all(close(x, y) for x, y in zip(a, b))


_FORM = [0]


def call_dihedral(ru, args, M, bo=None, rules=None):
    try:
        if M == 1 and bo is None and rules is None:
            return ("value", ru.dihedral_params(*args))
        _FORM[0] += 1
        if _FORM[0] % 3 == 0:
            return ("value", ru.dihedral_params(args[0], args[1], args[2], args[3], M, bo, rules))      # every argument by position, documented order
        return ("value", ru.dihedral_params(*args, num_dihedrals_about_bond=M, bond_order=bo, bond_order_rules=rules))
    except Exception as e:
        if type(e).__name__ == "PostBroken":
            raise
        return ("raises", type(e).__name__)


def ref_dihedral(tab, mg, args, M, bo=None, rules=None):
    try:
        return ("value", uffref.torsion(tab, mg, *args, M=M, bo=bo, rules=rules))
    except uffref.Unsupported:
        return ("raises", "Exception")


def check_dihedral(ru, tab, mg, args, M, ctx, st, bo=None, rules=None):
    got = call_dihedral(ru, args, M, bo, rules)
    exp = ref_dihedral(tab, mg, args, M, bo, rules)
    rev = call_dihedral(ru, tuple(reversed(args)), M, bo, rules)
    st.count("dihedral_evaluations")
    w = {"types": list(args), "M": M, "bond_order": bo}
    if got[0] != exp[0] or (got[0] == "value" and (got[1] is None) != (exp[1] is None)):
        ctx.fail("dihedral %s M=%d: real gives %s, reference %s" % ("-".join(args), M, _d(got), _d(exp)), witness=w)
        return
    if got[0] == "value" and got[1] is not None:
        if not same_tuple(got[1], exp[1]):
            ctx.fail("dihedral %s M=%d: %s, UFF form gives %s" % ("-".join(args), M, got[1], exp[1]), witness=w)
        if not all(math.isfinite(v) for v in got[1][1:]):
            ctx.fail("dihedral %s: non-finite parameters %s" % ("-".join(args), got[1]), witness=w)
        st.seen("dihedral_outcome", "n=%s d=%s" % (got[1][3], got[1][2]))
    else:
        st.seen("dihedral_outcome", "none" if got[0] == "value" else "raises")
    if rev[0] != got[0] or (got[0] == "value" and not ((got[1] is None and rev[1] is None) or same_tuple(got[1], rev[1]))):
        ctx.fail("dihedral %s M=%d differs from its reverse: %s vs %s" % ("-".join(args), M, _d(got), _d(rev)), witness=w)


def _d(x):
    return "%s:%s" % (x[0], x[1])


def check_angle(ru, tab, args, bos, rules, ctx, st):
    if tuple(bos) == (None, None) and rules is None:
        got = ru.angle_params(*args)               # optional arguments left out: the defaults must behave like explicit Nones, call after call
        st.count("angle_calls_with_default_arguments")
    else:
        got = ru.angle_params(*args, bond_orders=list(bos), bond_order_rules=rules)
    exp = uffref.angle(tab, *args, bos=bos, rules=rules)
    _FORM[0] += 1
    if _FORM[0] % 3 == 0:
        rev = ru.angle_params(args[2], args[1], args[0], list(reversed(bos)), rules)      # by position
    else:
        rev = ru.angle_params(*reversed(args), bond_orders=list(reversed(bos)), bond_order_rules=rules)
    st.count("angle_evaluations")
    w = {"types": list(args), "bond_orders": list(bos)}
    if not same_tuple(got, exp):
        ctx.fail("angle %s: %s, UFF form gives %s" % ("-".join(args), got, exp), witness=w)
    if not same_tuple(got, rev):
        ctx.fail("angle %s differs from its reverse: %s vs %s" % ("-".join(args), got, rev), witness=w)
    if not all(math.isfinite(v) for v in got[1:]) or not got[1] > 0:
        ctx.fail("angle %s: force constant %r is not finite and positive" % ("-".join(args), got[1]), witness=w)
    st.seen("angle_style", "%s%s" % (got[0], "" if got[0] == "fourier" else " b=%s n=%s" % (got[2], got[3])))


def run_case(case, ctx):
    import mofun.rough_uff as ru
    st = ctx.stats
    tab, mg = T()
    ts = types()
    n = len(ts)
    kind = case["kind"]
    if kind == "pairs":
        a1 = ts[case["i"]]
        for a2 in ts:
            for rules in RULESETS:
                g = ru.guess_bond_order(a1, a2, rules)
                e = uffref.bond_order(a1, a2, rules)
                st.count("bond_order_guesses")
                if g != e or ru.guess_bond_order(a2, a1, rules) != g:
                    ctx.fail("guessed bond order %s-%s (rules %s): %r, documented rule %r, reversed %r" % (a1, a2, rules, g, e, ru.guess_bond_order(a2, a1, rules)),
                             witness={"types": [a1, a2]})
                st.seen("bond_order_value", g)
            for bo in BOS:
                for rules in (RULESETS if bo is None else [None]):
                    got = ru.bond_params(a1, a2) if (bo is None and rules is None) else ru.bond_params(a1, a2, bond_order=bo, bond_order_rules=rules)
                    exp = uffref.bond(tab, a1, a2, bo, rules)
                    rev = ru.bond_params(a2, a1, bo, rules) if (len(a1) + len(a2)) % 2 else ru.bond_params(a2, a1, bond_order=bo, bond_order_rules=rules)
                    st.count("bond_evaluations")
                    w = {"types": [a1, a2], "bond_order": bo}
                    if not same_tuple(got, exp):
                        ctx.fail("bond %s-%s bo=%s: %s, UFF form gives %s" % (a1, a2, bo, got, exp), witness=w)
                    if not same_tuple(got, rev):
                        ctx.fail("bond %s-%s bo=%s differs from its reverse: %s vs %s" % (a1, a2, bo, got, rev), witness=w)
                    if not (math.isfinite(got[0]) and math.isfinite(got[1]) and got[0] > 0 and got[1] > 0):
                        ctx.fail("bond %s-%s bo=%s: force constant / length not finite and positive: %s" % (a1, a2, bo, got), witness=w)
        st.seen("pairs_first_type", a1)
        ctx.nontrivial(["pairs", a1])
        if a1 in ("C_R", "Zr8f4"):
            ctx.sample({"kind": "pairs", "first_type": a1, "second_types": "all 221", "bond_orders": [str(b) for b in BOS], "example": list(ru.bond_params(a1, "O_2"))})
        return
    if kind == "paircoeffs":
        for t in ts:
            got, exp = ru.pair_coeffs(t), uffref.pair(tab, t)
            st.count("pair_coeff_evaluations")
            if not same_tuple(tuple(got), tuple(exp)) or not all(math.isfinite(v) for v in got):
                ctx.fail("pair coefficients of %s: %s, UFF gives %s" % (t, got, exp), witness={"type": t})
            # a caller that converts the returned values where they are (units, scaling) must not change what the next call returns
            if isinstance(got, list):
                got[0] *= 4.184
                got.append(12.5)
                again = ru.pair_coeffs(t)
                st.count("calls_repeated_after_the_result_was_edited")
                if not same_tuple(tuple(again), tuple(exp)):
                    ctx.fail("pair coefficients of %s asked again after the first result was edited in place: %s, UFF gives %s" % (t, again, exp), witness={"type": t})
        ctx.nontrivial(["paircoeffs"])
        return
    if kind in ("triples_random", "triples_all"):
        a2 = ts[case["j"]]
        if kind == "triples_random":
            rng = np.random.default_rng(case["s"])
            outer = [(ts[int(i)], ts[int(k)]) for i, k in rng.integers(0, n, (case["count"], 2))]
            settings = [((None, None), None), ((1.5, None), None), ((None, 2), RULESETS[2]), ((None, None), RULESETS[3])]
        else:
            outer = [(ts[i], a3) for i in range(case["i0"], case["i1"]) for a3 in ts]
            settings = [((None, None), None)]
        for a1, a3 in outer:
            for bos, rules in settings:
                check_angle(ru, tab, (a1, a2, a3), bos, rules, ctx, st)
        st.seen("triples_central_type", a2)
        ctx.nontrivial([kind, a2, case.get("i0"), case.get("s")])
        if a2 in ("N_R", "Cu4+2") and case.get("i0", 0) == 0:
            ctx.sample({"kind": kind, "central_type": a2, "outer_pairs": len(outer), "example": list(ru.angle_params("C_3", a2, "C_R"))})
        return
    reps = {}
    for t in ts:
        reps.setdefault(uffref.outer_class(t), t)
    if kind == "quads_quotient":
        outers = list(reps.values())
        for c in case["central"]:
            a2, a3 = ts[c // n], ts[c % n]
            for a1 in outers:
                for a4 in outers:
                    for M in MULTS:
                        check_dihedral(ru, tab, mg, (a1, a2, a3, a4), M, ctx, st)
            st.count("central_pairs_covered")
        st.count("outer_classes", 0)
        st.seen("outer_class_representatives", sorted("%s:%s" % (k, v) for k, v in reps.items()))
        ctx.nontrivial([kind, case["central"][0], len(case["central"])])
        if case["central"][0] % 7 == 0:
            c = case["central"][0]
            ctx.sample({"kind": kind, "central_pair": [ts[c // n], ts[c % n]], "outer_representatives": outers, "multiplicities": MULTS})
        return
    if kind == "quads_random":
        rng = np.random.default_rng(case["s"])
        for _ in range(case["count"]):
            a = tuple(ts[int(i)] for i in rng.integers(0, n, 4))
            M = int(rng.integers(1, 10))
            r = int(rng.integers(6))
            bo, rules = (None, None) if r < 3 else ((float(rng.choice([1, 1.5, 2, 1.41])), None) if r < 5 else (None, RULESETS[2 + int(rng.integers(2))]))
            check_dihedral(ru, tab, mg, a, M, ctx, st, bo=bo, rules=rules)
        st.count("random_quadruples", case["count"])
        ctx.nontrivial([kind, case["s"]])
        return
    raise ValueError(kind)


def requirements(stats, tier):
    need = []
    if stats.nseen("pairs_first_type") < 221:
        need.append("pairs not exhaustive: %d first types" % stats.nseen("pairs_first_type"))
    if stats.get("bond_evaluations") < 221 * 221 * 4:
        need.append("bond evaluations %d" % stats.get("bond_evaluations"))
    if stats.nseen("triples_central_type") < 221:
        need.append("triples: only %d central types" % stats.nseen("triples_central_type"))
    if tier == "thorough" and stats.get("angle_evaluations") < 221 ** 3:
        need.append("thorough triples not exhaustive: %d" % stats.get("angle_evaluations"))
    if tier == "thorough" and stats.get("central_pairs_covered") < 221 * 221:
        need.append("thorough quadruple quotient not exhaustive: %d central pairs" % stats.get("central_pairs_covered"))
    want = {"n=3 d=1", "n=2 d=1", "n=2 d=-1", "n=6 d=-1", "none", "raises"}
    have = stats.sets.get("dihedral_outcome", set())
    if not want <= have:
        need.append("dihedral outcome classes missing: %s" % sorted(want - have))
    if stats.nseen("angle_style") < 5:
        need.append("angle styles observed: %s" % sorted(stats.sets.get("angle_style", [])))
    return need
