"""C08 - self-replacement is a no-op and element substitutions are reversible."""
import glob
import os

import numpy as np

from vmon import boot, events
from vmon.checks import c05
from vmon.gen import atomsgen, patterns, planted, replcase
from vmon.oracle import atomsmodel as AM
from vmon.oracle import geometry as G

from vmon.oracle.util import elements_of, clone

PROPERTY = "C08"
RULE = ("Histories of one or two consecutive real replacements. (i) replace(s, p, p): atom count, every atom's position, "
        "element, charge and group, and per kind the set of bonded/angled/torsion atom tuples (atoms named by unique "
        "ids) are compared before/after. (ii) A->B then B->A, the structure containing no B: the multiset of (element, "
        "position modulo lattice) is compared with the original (1e-6 for single-site substitutions, a bound "
        "proportional to atol otherwise). (iii) after replacing all A by B, a new search for A must be empty (B never "
        "contains A here). Structures: planted synthetic ones with random pre-existing terms (all cell classes, 12 "
        "pattern classes) and the repository's real MOF files after a random shift+wrap (uio66.cif, "
        "uio66-triclinic.lmpdat at atol 0.4, hkust-1 + benzene, docs/examples/uio66.cif with the docs patterns), with "
        "single-atom site patterns (Zr<->Hf, H<->F, O<->S, Cu<->Ni) and the multi-atom patterns. Non-trivial: at "
        "least one match was replaced; distinct by (structure, pattern, seed).")
ASSUMPTIONS = ["for (i) a term kind is compared only if the structure already has terms of that kind or the pattern has none (a pattern that carries bonds adds them to a bond-free structure by design)",
               "cases whose matches share atoms are not judged"]
ANCHOR_FUNCS = [("mofun/mofun.py", "replace_pattern_in_structure"), ("mofun/atoms.py", "find_unchanged_atom_pairs")]
REQUIRED_LINES = [("mofun/mofun.py", "structure_index_map = {k: match_indices[m_i][v] for k,v in replace2search_pattern_map.items()}")]
JOBS = {"quick": 6, "thorough": 16}
SUBST = {"Zr": "Hf", "H": "F", "O": "S", "Cu": "Ni", "C": "Si", "N": "P", "B": "Al", "Cl": "I", "F": "At", "Br": "I", "S": "Se", "P": "As"}


def real_cases():
    out = []
    for sp, pp, atol in [("tests/uio66/uio66.cif", "tests/uio66/uio66-linker.cml", 0.05), ("tests/uio66/uio66-triclinic.lmpdat", "tests/uio66/uio66-linker.cml", 0.4),
                         ("tests/hkust-1/hkust-1-with-bonds.cif", "tests/molecules/benzene.xyz", 0.05), ("docs/examples/uio66.cif", "docs/examples/uio66-linker.cml", 0.05),
                         ("docs/examples/uio66.cif", "docs/examples/uio66-metal-center-simple.cml", 0.05), ("docs/examples/uio66.cif", "docs/examples/uio66-linker-Zr.cml", 0.05)]:
        out.append({"kind": "real_self", "structure": sp, "pattern_file": pp, "atol": atol})
    for sp, el in [("tests/uio66/uio66.cif", "Zr"), ("tests/uio66/uio66.cif", "H"), ("tests/uio66/uio66-triclinic.lmpdat", "Zr"), ("tests/uio66/uio66-triclinic.lmpdat", "O"),
                   ("tests/hkust-1/hkust-1-with-bonds.cif", "Cu"), ("docs/examples/uio66.cif", "Zr")]:
        out.append({"kind": "real_site", "structure": sp, "element": el, "atol": 0.05})
    return out


def cases(tier, seed):
    rng = np.random.default_rng([8, seed])
    n = 420 if tier == "quick" else 60000
    out = []
    for j in range(n):
        out.append({"kind": ["self", "aba", "site"][j % 3], "s": int(rng.integers(1 << 30)), "cell": planted.CELL_CLASSES[(j // 3) % len(planted.CELL_CLASSES)],
                    "pattern": patterns.CLASSES[(j // 2) % len(patterns.CLASSES)], "atol": [0.05, 0.2, 0.01][(j // 5) % 3]})
    # exact copies (identical or turned by exactly 180 degrees) far from the origin: the atoms put in by the first substitution
    # differ from an exact copy by rounding (1e-14 A) only - the way back aligns axes that are parallel or antiparallel up to noise
    for j in range(60 if tier == "quick" else 3000):
        out.append({"kind": "aba", "exact": True, "s": int(rng.integers(1 << 30)), "cell": ["ortho_big", "tri_big"][j % 2],
                    "pattern": ["asym4", "chiral4", "asym6", "twofold", "pair_hetero", "collinear3"][j % 6], "atol": 0.05})
    # sites that share a node atom: the search pattern is one arm (leaf atom first, then the centre) of the planted unit, so the
    # occurrences of one unit all end on the same centre atom, which both patterns keep; units straddle the cell faces
    for j in range(60 if tier == "quick" else 4000):
        out.append({"kind": "aba", "shared_node": True, "s": int(rng.integers(1 << 30)), "cell": [c for c in planted.CELL_CLASSES if not c.endswith("minimal")][j % (len(planted.CELL_CLASSES) - 2)],
                    "pattern": ["twofold", "planar_d3h", "pyramid_c3v"][j % 3], "atol": [0.05, 0.1, 0.01][(j // 3) % 3]})
    reps = 1 if tier == "quick" else 8
    for r in range(reps):
        for c in real_cases():
            out.append(dict(c, s=int(rng.integers(1 << 30))))
    return out


def term_sets(a, ids):
    out = {}
    for kind, arr, w in AM.KINDS:
        x = np.asarray(getattr(a, arr)).reshape(-1, w)
        out[kind] = sorted(AM._canon(kind, tuple(ids[int(i)] for i in row)) for row in x)
    return out


def rebuilt_with_other_type_numbering(P):
    """the same molecule (elements, coordinates) as a separately built object whose atom types are numbered differently
    (type table in reverse order of first appearance, as for force-field typed or differently ordered input)"""
    from mofun import Atoms
    from mofun.atomic_masses import ATOMIC_MASSES
    els = list(P.elements)
    table = list(dict.fromkeys(reversed(els)))
    return Atoms(atom_types=[table.index(e) for e in els], positions=np.array(P.positions, float), atom_type_elements=table,
                 atom_type_masses=[ATOMIC_MASSES[e] for e in table], atom_type_labels=["%s_t" % e for e in table],
                 charges=np.array(P.charges, float), groups=np.array(P.groups))


def check_noop(ctx, st, S, P, atol, seed, w, variant=0, group=None, only_at=None):
    S = clone(S)
    S.charges = np.array([1000.0 + i / 64.0 for i in range(len(S))])
    ids = [float(c) for c in S.charges]
    before_terms = term_sets(S, ids)
    R = P
    if variant == 1 and len(set(P.elements)) >= 2:
        R = rebuilt_with_other_type_numbering(P)          # identical pattern, built separately
        st.count("self_replacements_with_separately_built_identical_pattern")
    elif variant == 2 and group is not None:
        P = S[list(group)]                                  # search pattern cut from the structure itself (keeps its type table)
        R = rebuilt_with_other_type_numbering(P) if len(set(P.elements)) >= 2 else P
        st.count("self_replacements_with_pattern_cut_from_structure")
    obs = replcase.observe_replace(S, P, R, seed, atol=atol)
    st.count("self_replacements")
    if obs["found"] is None:
        st.count("not_judged")
        return 0
    if obs["exception"] is not None:
        # with an identical pattern every atom is shared, nothing is removed, so not even overlapping matches may be refused
        ctx.fail("self-replacement raised %s: %s" % (type(obs["exception"]).__name__, str(obs["exception"])[:160]), witness=w)
        return len(obs["found"])
    if replcase.matches_overlap(obs["found"]):
        st.count("self_replacements_with_overlapping_matches")
    out = obs["result"]
    if len(out) != len(S):
        ctx.fail("self-replacement changed the atom count from %d to %d (%d matches)" % (len(S), len(out), len(obs["found"])), witness=w)
        return len(obs["found"])
    oid = [float(c) for c in out.charges]
    if sorted(oid) != sorted(ids):
        ctx.fail("self-replacement changed the charges / removed or duplicated atoms", witness=w)
        return len(obs["found"])
    pos_of = {c: i for i, c in enumerate(oid)}
    cell = np.array(S.cell, float)
    els_in, els_out = elements_of(S), elements_of(out)
    for i, c in enumerate(ids):
        j = pos_of[c]
        d = G.equal_mod_lattice(cell, np.asarray(out.positions[j], float)[None, :], np.asarray(S.positions[i], float)[None, :])[0]
        if d > 1e-9 or els_out[j] != els_in[i] or int(out.groups[j]) != int(S.groups[i]):
            ctx.fail("self-replacement changed atom %d: position moved by %.3g, element %s->%s, group %d->%d" % (i, d, els_in[i], els_out[j], S.groups[i], out.groups[j]), witness=w)
            break
    after_terms = term_sets(out, oid)
    if only_at is not None and {tuple(int(i) for i in m) for m in obs["found"]} - {tuple(int(i) for i in g) for g in only_at}:
        # the structure was given the pattern's term at the planted copies only: a further occurrence (atoms of different copies that
        # fit within the tolerance, or a copy matched in another order) rightly receives the pattern's term, which it did not have
        st.count("term_sets_not_compared_(occurrence besides the planted ones receives the pattern's term)")
        return len(obs["found"])
    for kind, arr, _ in AM.KINDS:
        pat_has = len(getattr(P, arr)) > 0
        if pat_has and not before_terms[kind]:
            st.count("term_kind_not_compared_(pattern adds terms to a structure without any)")
            continue
        if after_terms[kind] != before_terms[kind]:
            extra = [t for t in after_terms[kind] if t not in before_terms[kind]][:3]
            missing = [t for t in before_terms[kind] if t not in after_terms[kind]][:3]
            ctx.fail("self-replacement changed the set of %s tuples: added %s, lost %s" % (kind, extra, missing), witness=w)
        st.count("term_sets_compared")
    return len(obs["found"])


def multiset(a):
    return [(e, np.asarray(p, float)) for e, p in zip(a.elements, a.positions)]


def _overlap(found, kept=()):
    """do occurrences share atoms - other than the ones at the pattern places `kept`, which both patterns have and no replacement touches"""
    if not kept:
        return replcase.matches_overlap(found)
    repl = [[int(i) for k, i in enumerate(m) if k not in kept] for m in found]
    held = {int(m[k]) for m in found for k in kept}
    return replcase.matches_overlap(repl) or bool(held & {i for m in repl for i in m})


def nearly_symmetric(pat, atol):
    """does the pattern fit onto itself, within the tolerance but not exactly, with its atoms in another (element-preserving) order?
    Then one and the same copy is an occurrence in two inequivalent ways, and which of the two a search reports is its choice."""
    import itertools
    from vmon.oracle import refmatch
    els = list(pat["elements"])
    pos = np.asarray(pat["positions"], float)
    n = len(els)
    if n < 2 or n > 7:
        return False
    for perm in itertools.permutations(range(n)):
        if all(i == j for i, j in enumerate(perm)) or any(els[i] != els[j] for i, j in enumerate(perm)):
            continue
        cls, rms, mx = refmatch.classify_assignment(pos, pos[list(perm)], atol)
        if cls != "non" and mx > 1e-6:
            return True
    return False


def check_aba(ctx, st, S, A, B, patA, patB, atol, seed, w, tol, fraction=1.0, sample="real", grown=False, kept=()):
    """A->B->A restores the multiset; after A->B no A is found"""
    import mofun
    if nearly_symmetric(patA, atol) or nearly_symmetric(patB, atol):
        # thorough run 16: H,S,O,H became H,S,S,H, which fits onto itself with the two S (and the two H) exchanged to within 0.19 A
        # at tolerance 0.2 - the way back took that other numbering, legitimately, and put the O where the other S was
        st.count("not_judged_pattern_fits_onto_itself_in_another_order_within_the_tolerance")
        return 0
    if any(e in set(S.elements) for e in set(patB["elements"]) - set(patA["elements"])):
        st.count("not_judged_structure_contains_B_elements")
        return 0
    events.SCHEDULE["sample"] = sample
    o1 = replcase.observe_replace(S, A, B, seed, atol=atol, **({} if fraction >= 1.0 else {"replace_fraction": fraction}))
    st.count("two_step_histories")
    if o1["found"] is not None and _overlap(o1["found"], kept):
        st.count("not_judged")          # occurrences that share atoms: substituting one destroys its neighbours
        return 0
    if kept and o1["found"] is not None and replcase.matches_overlap(o1["found"]):
        st.count("two_step_histories_whose_occurrences_share_an_atom_both_patterns_keep")
    if fraction < 1.0 and o1["selected"] is None and o1["found"]:
        st.count("not_judged_selection_not_observable")
        return 0
    if fraction < 1.0 and o1["selected"] is not None:
        # only the selected sites were substituted
        o1 = dict(o1, found=[o1["found"][k] for k in o1["selected"]], all_found=o1["found"])
        st.count("partial_two_step_histories")
    if o1["found"] is None or o1["exception"] is not None or _overlap(o1["found"], kept) or not o1["found"]:
        st.count("not_judged")
        return 0
    if len(patA["elements"]) >= 2 and len(S) <= 400:
        # the substitution puts the B atoms where the aligned pattern says, up to the tolerance away from the atoms they replace: an
        # atom group of S that misses the tolerance only just (neither a clear occurrence nor clearly none, and not reported) may come
        # inside it in the intermediate structure and then shares atoms with a genuine occurrence. Such structures are not judged.
        from vmon.oracle import refmatch
        ref = refmatch.search(elements_of(S), np.asarray(S.positions, float), np.array(S.cell, float), list(patA["elements"]), np.asarray(patA["positions"], float), atol)
        reported = {tuple(sorted(int(i) for i in m)) for m in (o1.get("all_found") or o1["found"])}
        # (thorough run 14: the same holds for a borderline group that IS reported - an unplanted group of atoms of different copies
        # fitting at 0.9 tolerances was substituted, and the five-atom B put on it, aligned on other atoms, no longer fits on the way back)
        if ref["truncated"] or any(g["cls"] == "gray" for k, g in ref["groups"].items()):
            st.count("not_judged_borderline_group_present")
            return 0
        if list(patB["elements"]) != list(patA["elements"]) and len(patB["elements"]) == len(patA["elements"]) and set(patB["elements"]) <= set(elements_of(S)):
            # "the structure containing no B beforehand": B's elements all occur in S (the substitute is an element the pattern has
            # elsewhere, O -> S beside an S), so atoms of S may already form a B - thorough run 15: the S of a neighbouring copy,
            # reached through an image of a strongly sheared cell, sat where B has its new S. Such structures are not judged.
            refB = refmatch.search(elements_of(S), np.asarray(S.positions, float), np.array(S.cell, float), list(patB["elements"]), np.asarray(patB["positions"], float), atol)
            if refB["truncated"] or any(g["cls"] != "non" for g in refB["groups"].values()):
                st.count("not_judged_structure_contains_B_beforehand")
                return 0
    S1 = o1["result"]
    events.seed_all(seed)
    left = mofun.find_pattern_in_structure(S1, A, atol=atol)
    if fraction < 1.0:
        if len(left) != len(o1["all_found"]) - len(o1["found"]):
            ctx.fail("after replacing %d of %d occurrences of A by B a new search finds %d (expected the %d untouched ones)" %
                     (len(o1["found"]), len(o1["all_found"]), len(left), len(o1["all_found"]) - len(o1["found"])), witness=w)
    elif len(left):
        ctx.fail("after replacing all %d occurrences of A by B a new search still finds A at %s" % (len(o1["found"]), [tuple(int(i) for i in m) for m in left][:3]), witness=w)
    st.count("refind_checked")
    o2 = replcase.observe_replace(S1, B, A, seed + 1, atol=atol)
    if grown and o2["found"] is not None and _overlap(o2["found"], kept):
        # the atom B adds beyond A landed within the tolerance of where a neighbouring copy's added atom is expected: the
        # intermediate structure then holds occurrences of B that share atoms, which no replacement can serve (as for A above)
        st.count("not_judged_added_atoms_of_neighbouring_copies_within_tolerance")
        return 0
    if o2["found"] is None or o2["exception"] is not None:
        ctx.fail("replacing B back by A failed: %r" % (o2["exception"],), witness=w)
        return len(o1["found"])
    if len(o2["found"]) != len(o1["found"]):
        ctx.fail("%d occurrences of A were replaced by B, but %d occurrences of B are found afterwards" % (len(o1["found"]), len(o2["found"])), witness=w)
        return len(o1["found"])
    S2 = o2["result"]
    # the tolerance-based bound is the worst case; what the two alignments really have to absorb is how far the matched copies
    # are from exact images of the pattern (zero for exact copies): the same formula on the largest measured deviation, with margin
    # (the way back is a search of its own: in a cell hardly wider than the pattern it may take the same atoms through other periodic
    # images, which fit less exactly than the ones the first search took - thorough run 13; the measured bound is used only where
    # every atom within reach of the anchor has a single image, i.e. the cell is more than twice as wide as the patterns)
    roomy = np.all(G.perp_widths(np.array(S.cell, float)) > 2 * max(G.diameter(np.asarray(patA["positions"], float)), G.diameter(np.asarray(patB["positions"], float))) + 2 * atol + 0.1)
    if len(patA["elements"]) >= 2 and o1.get("found_positions") is not None and roomy:
        try:
            dev = max(G.kabsch(np.asarray(patA["positions"], float), np.asarray(x, float))[3] for x in o1["found_positions"])
            tol_m = 6 * c05.bound(dev, patA["positions"], patB["positions"]) + 1e-6 * max(1.0, float(np.abs(np.asarray(S.positions, float)).max()))
            if tol_m < tol:
                tol = tol_m
                st.count("restorations_judged_by_the_measured_deviation_of_the_copies")
        except Exception:
            pass
    ok, why = c05.same_multiset(np.array(S.cell, float), multiset(S), multiset(S2), tol)
    if len(S2) != len(S) or not ok:
        ctx.fail("A->B->A does not restore the structure: %s (atoms %d -> %d)" % (why, len(S), len(S2)), witness=w)
    st.count("restorations_checked")
    return len(o1["found"])


def substituted(pat, rng, single=False, first=False):
    """B = A with one (or, for a single-atom pattern, the) element substituted, same coordinates"""
    els = list(pat["elements"])
    cands = [i for i, e in enumerate(els) if e in SUBST]
    if not cands:
        return None
    j = cands[int(rng.integers(len(cands)))]
    if first:
        j = cands[0]        # the first substitutable atom (atom 0, the anchor of the alignment, for most patterns)
    els[j] = SUBST[els[j]]
    return {"elements": els, "positions": np.array(pat["positions"], float).copy(), "cls": pat.get("cls"), "continuous_symmetry": pat.get("continuous_symmetry")}


def load_real(path, rng):
    from vmon.checks.c03 import load_any
    S = load_any(path)
    cell = np.array(S.cell, float)
    S.positions = G.wrap(cell, np.asarray(S.positions, float) + rng.uniform(-1, 1, 3).dot(cell))
    return S


def run_case(case, ctx):
    from mofun import Atoms
    rng = np.random.default_rng(case["s"])
    st = ctx.stats
    kind = case["kind"]
    n = 0
    if kind in ("self", "aba", "site"):
        atol = case["atol"]
        pat = patterns.make(rng, case["pattern"] if kind != "site" else "single")
        k = 1 if case["cell"].endswith("minimal") else int(rng.integers(1, 5))
        if case.get("exact"):
            k = 6
        built = planted.build(rng, pat, case["cell"], atol, n_copies=k, crossings=[int(x) for x in rng.integers(0, 4, k)],
                              poses=[planted.POSES[int(x)] for x in rng.integers(0, len(planted.POSES), k)] if not case.get("exact") else
                              [["axis_antiparallel_exact", "identity_exact", "slightly_tilted_exact", "slightly_tilted_exact"][int(x)] for x in rng.integers(0, 4, k)], n_bystanders=int(rng.integers(1, 7)),
                              n_distractors=0 if kind != "self" else int(rng.integers(0, 2)), min_sep=1.3,
                              decoys=["mirror"] if (pat.get("chiral") and case["s"] % 2 == 0) else [])
        S = built["atoms"]
        if built["decoy_groups"]:
            # a mirror-image site of a handed pattern: fits every distance, is not an occurrence, and sits somewhere among the real ones
            st.count("structures_with_a_mirror_image_site")
        w = {"kind": kind, "cell_class": case["cell"], "pattern_class": pat["cls"], "atol": atol, "planted": built["planted"], "n_atoms": len(S)}
        if kind == "self":
            # pre-existing terms among the atoms, inside / outside / across the matched groups
            nat = len(S)
            for knd in atomsgen.KNAMES:
                terms = atomsgen.random_terms(rng, nat, atomsgen.WIDTH[knd], int(rng.integers(0, 6)))
                if terms:
                    setattr(S, atomsgen.ARR[knd], np.array(terms, dtype=int))
                    setattr(S, "%s_types" % knd, np.array([int(x) for x in rng.integers(0, 2, len(terms))]))
                    setattr(S, "extra_%s_fields" % knd, np.full((len(terms), 0), ".", dtype=object))
            P0 = patterns.to_atoms(pat)
            variant = (case["s"] // 3) % 3
            ring = False
            if case["s"] % 2 == 1 and pat["cls"] in ("asym4", "asym5", "asym6", "chiral4", "chiral5") and built["planted"]:
                # a three-membered ring in every copy: all three angles over the same three atoms (one centred on each); the pattern
                # carries just one of them - the other two are different terms and must survive the identical replacement
                extra = []
                for g in built["planted"]:
                    a0, a1, a2 = int(g[0]), int(g[1]), int(g[2])
                    extra += [(a0, a1, a2), (a1, a0, a2), (a0, a2, a1)]
                old = np.asarray(S.angles).reshape(-1, 3)
                keep = [tuple(int(v) for v in r) for r in old if tuple(sorted(int(v) for v in r)) not in {tuple(sorted(t)) for t in extra}]
                allang = keep + extra
                S.angles = np.array(allang, dtype=int)
                S.angle_types = np.array([i % 2 for i in range(len(allang))])
                S.extra_angle_fields = np.full((len(allang), 0), ".", dtype=object)
                P0.angles = np.array([(0, 1, 2)], dtype=int)
                P0.angle_types = np.array([0])
                P0.extra_angle_fields = np.full((1, 0), ".", dtype=object)
                variant = 0
                ring = True
                st.count("self_replacements_with_several_terms_over_the_same_atoms")
            n = check_noop(ctx, st, S, P0, atol, case["s"], w, variant=variant,
                           group=built["planted"][0] if built["planted"] else None, only_at=built["planted"] if ring else None)
        else:
            near_face = bool(case.get("exact")) and case["s"] % 3 == 1 and built["planted"]
            if near_face:
                # the whole (exact) structure is shifted so that the atom about to be substituted in the first copy lies a few
                # millionths of a cell length inside a far cell face (fractional coordinate 1 - 3e-6 .. 1 - 9e-6)
                cands_ = [i for i, e in enumerate(pat["elements"]) if e in SUBST]
                if cands_:
                    g = built["planted"][0][cands_[0]]
                    cellm = np.array(S.cell, float)
                    fr = G.frac(cellm, np.asarray(S.positions, float)[g])
                    ax = int(rng.integers(3))
                    sh = np.zeros(3)
                    sh[ax] = (1.0 - float(rng.uniform(3e-6, 9e-6))) - fr[ax]
                    S.positions = G.wrap(cellm, np.asarray(S.positions, float) + sh.dot(cellm))
                    st.count("two_step_histories_with_the_substituted_atom_just_inside_a_far_face")
            kept = ()
            if case.get("shared_node"):
                pat = {"cls": pat["cls"] + "/arm", "elements": [pat["elements"][1], pat["elements"][0]], "positions": np.array([pat["positions"][1], pat["positions"][0]], float),
                       "continuous_symmetry": "line"}
                w["pattern_class"] = pat["cls"]
                kept = (1,)
            B = substituted(pat, rng, first=bool(case.get("exact")) and (case["s"] % 2 == 0 or bool(near_face)) or bool(kept))
            if case.get("exact"):
                st.count("two_step_histories_on_exact_copies_far_from_the_origin")
            if B is None:
                st.count("not_judged")
                return
            if case["s"] % 2 == 0 and len(pat["elements"]) >= 2 and not kept:
                # B larger than A: the substituted atom carries one more atom further out (C-H -> C-O-H), so B reaches beyond A
                j = [i for i, (x, y) in enumerate(zip(pat["elements"], B["elements"])) if x != y][0]
                pp = np.asarray(B["positions"], float)
                out_dir = pp[j] - np.delete(pp, j, axis=0).mean(0)
                if np.linalg.norm(out_dir) > 0.3:
                    extra = pp[j] + out_dir / np.linalg.norm(out_dir) * float(rng.uniform(0.9, 1.3))
                    # (B must itself stay a pattern the search supports in this cell: every width above its diameter + 2*atol)
                    fits = np.all(G.perp_widths(np.array(S.cell, float)) > G.diameter(np.vstack([pp, extra])) + 2 * atol + 0.05)
                    if np.linalg.norm(pp - extra, axis=1).min() > 0.7 and fits:
                        B = dict(B, elements=list(B["elements"]) + ["Te"], positions=np.vstack([pp, extra]))
                        st.count("two_step_histories_with_a_larger_B")
            tol = 1e-6 if len(pat["elements"]) == 1 else 2 * c05.bound(atol, pat["positions"], B["positions"])
            frac = [1.0, 0.5, 0.67][(case["s"] // 7) % 3]
            # patterns read from a CIF / LAMMPS file carry the box they were drawn in (5 - 7.5 A, or half the structure's cell): it says
            # nothing about the structure's lattice
            pkw = {}
            if case["s"] % 5 == 3:
                pkw = {"cell": np.diag(rng.uniform(5.0, 7.5, 3)) if rng.integers(3) else np.array(S.cell, float) * 0.5}
                st.count("two_step_histories_whose_patterns_carry_their_own_cell")
            n = check_aba(ctx, st, S, patterns.to_atoms(pat, **pkw), patterns.to_atoms(B, **pkw), pat, B, atol, case["s"], w, tol, fraction=frac, sample=["reversed", "real"][case["s"] % 2], grown=len(B["elements"]) > len(pat["elements"]), kept=kept)
        st.seen("synthetic_kind", kind)
        st.seen("cell_class", case["cell"])
        if n:
            ctx.nontrivial([kind, case["s"]])
            if len(S) <= 14:
                ctx.sample({"kind": kind, "cell": case["cell"], "pattern_class": pat["cls"], "pattern_elements": pat["elements"], "matches": n, "n_atoms": len(S)})
        return
    S = load_real(case["structure"], rng)
    atol = case["atol"]
    w = {"kind": kind, "structure": case["structure"], "atol": atol, "shifted_and_wrapped": True}
    if kind == "real_self":
        from vmon.checks.c03 import load_any
        P = load_any(case["pattern_file"])
        w["pattern"] = case["pattern_file"]
        n = check_noop(ctx, st, S, P, atol, case["s"], w)
        st.seen("real_self", "%s + %s: %d matches" % (case["structure"], case["pattern_file"], n))
    else:
        e = case["element"]
        patA = {"elements": [e], "positions": np.zeros((1, 3))}
        patB = {"elements": [SUBST[e]], "positions": np.zeros((1, 3))}
        w["site"] = "%s<->%s" % (e, SUBST[e])
        n = check_aba(ctx, st, S, patterns.to_atoms(patA), patterns.to_atoms(patB), patA, patB, atol, case["s"], w, 1e-6)
        st.seen("real_site", "%s %s<->%s: %d sites" % (case["structure"], e, SUBST[e], n))
    if n:
        ctx.nontrivial([kind, case["structure"], case.get("pattern_file", case.get("element")), case["s"]])
        ctx.sample(dict(w, matches=n))


def requirements(stats, tier):
    need = []
    if stats.get("two_step_histories_whose_patterns_carry_their_own_cell") < (20 if tier == "quick" else 2000):
        need.append("two-step histories whose patterns carry a cell of their own: %d" % stats.get("two_step_histories_whose_patterns_carry_their_own_cell"))
    if stats.get("two_step_histories_whose_occurrences_share_an_atom_both_patterns_keep") < (15 if tier == "quick" else 1000):
        need.append("two-step histories whose occurrences share a kept atom: %d" % stats.get("two_step_histories_whose_occurrences_share_an_atom_both_patterns_keep"))
    if stats.get("self_replacements") < (100 if tier == "quick" else 12000) or stats.get("restorations_checked") < (100 if tier == "quick" else 12000):
        need.append("self replacements %d, restorations %d" % (stats.get("self_replacements"), stats.get("restorations_checked")))
    if stats.get("self_replacements_with_several_terms_over_the_same_atoms") < (5 if tier == "quick" else 1000):
        need.append("self replacements in structures with several angle terms over the same three atoms: %d" % stats.get("self_replacements_with_several_terms_over_the_same_atoms"))
    if stats.get("two_step_histories_with_the_substituted_atom_just_inside_a_far_face") < (10 if tier == "quick" else 500):
        need.append("two-step histories with the substituted atom a few millionths inside a far cell face: %d" % stats.get("two_step_histories_with_the_substituted_atom_just_inside_a_far_face"))
    if stats.get("two_step_histories_with_a_larger_B") < (20 if tier == "quick" else 2000):
        need.append("two-step histories in which B has one atom more than A: %d" % stats.get("two_step_histories_with_a_larger_B"))
    if stats.get("two_step_histories_on_exact_copies_far_from_the_origin") < (30 if tier == "quick" else 1500):
        need.append("two-step histories on exact copies far from the origin: %d" % stats.get("two_step_histories_on_exact_copies_far_from_the_origin"))
    if stats.get("structures_with_a_mirror_image_site") < (10 if tier == "quick" else 1000):
        need.append("structures with a mirror-image site of a handed pattern: %d" % stats.get("structures_with_a_mirror_image_site"))
    if stats.get("partial_two_step_histories") < (20 if tier == "quick" else 2000):
        need.append("two-step histories with a replacement fraction below 1: %d" % stats.get("partial_two_step_histories"))
    if stats.get("self_replacements_with_separately_built_identical_pattern") < 10 or stats.get("self_replacements_with_pattern_cut_from_structure") < 10:
        need.append("identical patterns built separately / cut from the structure: %d / %d" % (stats.get("self_replacements_with_separately_built_identical_pattern"), stats.get("self_replacements_with_pattern_cut_from_structure")))
    if stats.get("term_sets_compared") < 200:
        need.append("term sets compared only %d times" % stats.get("term_sets_compared"))
    if stats.nseen("real_self") < 5 or stats.nseen("real_site") < 5:
        need.append("real files: self %s site %s" % (sorted(stats.sets.get("real_self", [])), sorted(stats.sets.get("real_site", []))))
    if any(x.endswith(": 0 matches") for x in stats.sets.get("real_self", [])):
        need.append("a real self-replacement found no match: %s" % [x for x in stats.sets.get("real_self", []) if x.endswith(": 0 matches")])
    return need
