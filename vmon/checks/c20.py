"""C20 - the command line does exactly load, replicate, find/replace, save."""
import io
import os
import shutil
import tempfile

import numpy as np

from vmon import boot, events
from vmon.gen import patterns, planted, replcase
from vmon.oracle import geometry as G

PROPERTY = "C20"
RULE = ("Differential monitor: for each generated option set the real command (click command object, run in-process with "
        "CliRunner) and the harness's API pipeline load -> [charges] -> replicate -> [mic replicate] -> [pair "
        "coefficients] -> replace | find -> save are run after identical seeding and their output files are compared "
        "byte for byte (same writer); for find-only runs the printed match list is compared with the API's and the "
        "output with the unmodified (loaded/replicated) structure. A spy on the names bound in mofun.cli.mofun_cli "
        "records every library call the command makes: each option value (atol, replace fraction, the three hint "
        "indices, replication factors, the factors derived from --mic, the charge array, pair assignment) must arrive "
        "at the call it names, and replication must precede replacement. Inputs: generated planted structures "
        "written as CIF and LAMMPS data (and CML for conversion-only runs), patterns as CML / LAMMPS data; outputs "
        "LAMMPS data and CIF (and .xyz through ASE for --framework-element); every option singly at a non-default, "
        "outcome-changing value and in random combinations; plus the command lines of the documented Examples 1, 3 "
        "and 4 on docs/examples. Non-trivial: at least one option besides input/output was given and a match was "
        "found; distinct by seed.")
ASSUMPTIONS = ["--dumppath and --extract-uc are not in the property's option list and are not exercised",
               "outputs are compared as bytes because both sides use the same writer; the writers themselves are C13/C15's business"]
ANCHOR_FUNCS = [("mofun/cli/mofun_cli.py", "mofun_cli"), ("mofun/cli/mofun_cli.py", "assign_pair_params_to_structure")]
REQUIRED_LINES = [("mofun/cli/mofun_cli.py", "atoms = atoms.replicate(repls)"), ("mofun/cli/mofun_cli.py", "aseatoms.symbols[atoms.groups == 0] = framework_element"),
                  ("mofun/cli/mofun_cli.py", "atoms.charges = charges"), ("mofun/cli/mofun_cli.py", "assign_pair_params_to_structure(atoms)\n")]
JOBS = {"quick": 4, "thorough": 16}
OPTS = ["atol", "fraction", "hints", "replicate", "mic", "charges", "pp", "framework", "findonly", "none", "replace_without_find"]


def cases(tier, seed):
    rng = np.random.default_rng([20, seed])
    n = 220 if tier == "quick" else 40000
    out = []
    for j in range(n):
        single = OPTS[j % len(OPTS)] if j < 6 * len(OPTS) else None
        out.append({"kind": "generated", "s": int(rng.integers(1 << 30)), "single": single, "informat": ["cif", "lmpdat"][j % 2], "outformat": ["lmpdat", "cif"][(j // 2) % 2],
                    "pattern_format": ["cml", "lmpdat"][(j // 4) % 2], "cell": ["ortho", "tri+-+", "ortho", "tri--+"][(j // 3) % 4]})
    for j in range(6 if tier == "quick" else 60):
        out.append({"kind": "cml_conversion", "s": int(rng.integers(1 << 30)), "outformat": ["lmpdat", "cif", "xyz"][j % 3]})
    for ex in (["ex1", "ex3a", "ex3b", "ex4b"] if tier == "quick" else ["ex1", "ex3a", "ex3b", "ex4b", "ex4a", "ex2"]):
        out.append({"kind": "docs", "example": ex, "s": int(rng.integers(1 << 30))})
    return out


def write_cml(path, elements, positions, bonds=()):
    lines = ['<?xml version="1.0" encoding="UTF-8"?>', "<molecule>", " <atomArray>"]
    for i, (e, p) in enumerate(zip(elements, positions)):
        lines.append('  <atom id="a%d" elementType="%s" x3="%r" y3="%r" z3="%r"/>' % (i + 1, e, float(p[0]), float(p[1]), float(p[2])))
    lines.append(" </atomArray>")
    lines.append(" <bondArray>")
    for i, j in bonds:
        lines.append('  <bond atomRefs2="a%d a%d" order="1"/>' % (i + 1, j + 1))
    lines.append(" </bondArray>")
    lines.append("</molecule>")
    with open(path, "w") as f:
        f.write("\n".join(lines) + "\n")


def save_pattern(path, fmt, elements, positions):
    from mofun import Atoms
    if fmt == "cml":
        write_cml(path, elements, positions)
    else:
        a = Atoms(elements=list(elements), positions=np.array(positions, float))
        with open(path, "w") as f:
            a.save_lmpdat(f)


def pair_params_reference(atoms):
    """harness's statement of --pp: UFF pair coefficients per atom type from its element, labels = UFF keys"""
    import mofun.rough_uff as ru
    from mofun.uff4mof import UFF4MOF
    keys = []
    for el in atoms.atom_type_elements:
        pref = el.ljust(2, "_")
        keys.append([k for k in UFF4MOF if k.startswith(pref)][0])
    atoms.pair_coeffs = ["%10.6f %10.6f # %s" % (UFF4MOF[k][3], UFF4MOF[k][2] * 2 ** (-1.0 / 6.0), k) for k in keys]
    atoms.atom_type_labels = keys


def api_pipeline(inp, outp, opt, seed):
    """what the documentation says the command does, through the API. -> (find results | None)"""
    import mofun
    from mofun import Atoms
    events.seed_all(seed)
    atoms = Atoms.load(inp)
    if opt.get("charges") is not None:
        atoms.charges = np.array(opt["charges"], float)
    if opt.get("replicate") is not None:
        atoms = atoms.replicate(tuple(opt["replicate"]))
    if opt.get("mic") is not None and atoms.cell_is_orthorhombic():
        repls = np.array(np.ceil(2 * opt["mic"] / np.diag(atoms.cell)), dtype=int)
        atoms = atoms.replicate(repls)
    if opt.get("pp"):
        pair_params_reference(atoms)
    results = None
    if opt.get("find") is not None:
        search = Atoms.load(opt["find"])
        if opt.get("replace") is not None:
            rep = Atoms.load(opt["replace"])
            kw = {}
            if opt.get("atol") is not None:
                kw["atol"] = opt["atol"]
            if opt.get("fraction") is not None:
                kw["replace_fraction"] = opt["fraction"]
            h = opt.get("hints") or (None, None, None)
            atoms = mofun.replace_pattern_in_structure(atoms, search, rep, axisp1_idx=h[0], axisp2_idx=h[1], opoint_idx=h[2], **kw)
        else:
            kw = {"atol": opt["atol"]} if opt.get("atol") is not None else {}
            results = mofun.find_pattern_in_structure(atoms, search, **kw)
    if outp.endswith((".lmpdat", ".cif")):
        atoms.save(outp)
    else:
        ase_atoms = atoms.to_ase()
        if opt.get("framework") is not None:
            ase_atoms.symbols[np.asarray(atoms.groups) == 0] = opt["framework"]
        ase_atoms.set_pbc(True)
        ase_atoms.write(outp)
    return results


def cli_args(inp, outp, opt):
    args = [inp, outp]
    if opt.get("find") is not None:
        args += ["--find" if opt.get("long") else "-f", opt["find"]]
    if opt.get("replace") is not None:
        args += ["--replace" if opt.get("long") else "-r", opt["replace"]]
    if opt.get("atol") is not None:
        args += ["--atol", repr(opt["atol"])]
    if opt.get("fraction") is not None:
        args += (["--replace-fraction=%r" % opt["fraction"]] if opt.get("long") else ["-p", repr(opt["fraction"])])
    h = opt.get("hints") or (None, None, None)
    for flag, longflag, v in (("-ap1", "--axisp1-idx", h[0]), ("-ap2", "--axisp2-idx", h[1]), ("-op", "--opoint-idx", h[2])):
        if v is not None:
            args += [longflag if opt.get("long") else flag, str(v)]
    if opt.get("replicate") is not None:
        args += ["--replicate"] + [str(x) for x in opt["replicate"]]
    if opt.get("mic") is not None:
        args += ["--mic", repr(opt["mic"])]
    if opt.get("chargefile") is not None:
        args += ["-q" if not opt.get("long") else "--chargefile", opt["chargefile"]]
    if opt.get("pp"):
        args += ["--pp"]
    if opt.get("framework") is not None:
        args += ["--framework-element", opt["framework"]]
    return args


def run_cli(args, seed):
    """-> (click result, events of the run)"""
    from click.testing import CliRunner
    import mofun.cli.mofun_cli as cli
    events.seed_all(seed)
    n0 = len(events.LOG)
    real_pp = cli.assign_pair_params_to_structure

    def spy_pp(structure):
        events.emit("cli.pp", n=len(structure))
        return real_pp(structure)
    cli.assign_pair_params_to_structure = spy_pp
    try:
        res = CliRunner().invoke(cli.mofun_cli, args)
    finally:
        cli.assign_pair_params_to_structure = real_pp
    log = list(events.LOG[n0:])
    del events.LOG[n0:]
    return res, log


def compare_run(ctx, st, inp, out_cli, out_api, opt, seed, w, label=""):
    args = cli_args(inp, out_cli, opt)
    res, log = run_cli(args, seed)
    w = dict(w, argv=[os.path.basename(a) if os.sep in a else a for a in args])
    st.count("cli_runs")
    api_exc = None
    try:
        n0 = len(events.LOG)
        results = api_pipeline(inp, out_api, opt, seed)
        del events.LOG[n0:]
    except Exception as e:
        if type(e).__name__ == "PostBroken":
            raise
        api_exc = e
        results = None
    if res.exception is not None and not isinstance(res.exception, SystemExit):
        if api_exc is None:
            ctx.fail("%sthe command raised %s: %s, while the same steps through the API succeed" % (label, type(res.exception).__name__, str(res.exception)[:200]), witness=w)
        else:
            st.count("both_raised.%s" % type(api_exc).__name__)
        return False
    if res.exit_code != 0:
        ctx.fail("%sthe command exited with status %s: %s" % (label, res.exit_code, res.output[-300:]), witness=w)
        return False
    if api_exc is not None:
        ctx.fail("%sthe command succeeded but the same steps through the API raise %s: %s" % (label, type(api_exc).__name__, str(api_exc)[:200]), witness=w)
        return False
    # 1. output files
    if not os.path.exists(out_cli):
        ctx.fail("%sthe command wrote no output file" % label, witness=w)
        return False
    a, b = open(out_cli, "rb").read(), open(out_api, "rb").read()
    if a != b:
        la, lb = a.decode(errors="replace").split("\n"), b.decode(errors="replace").split("\n")
        diff = [(x, y) for x, y in zip(la, lb) if x != y][:3]
        ctx.fail("%sthe command's output differs from load/replicate/replace/save through the API (%d vs %d lines): %s" % (label, len(la), len(lb), diff), witness=w)
    st.count("outputs_compared")
    if opt.get("find") is None and opt.get("replace") is not None and "Cannot perform a replace operation without a find operation" not in res.output:
        ctx.fail("%sa replacement without a find pattern was not refused with the documented message: %r" % (label, res.output[-200:]), witness=w)
    # 2. find-only: printed matches
    if opt.get("find") is not None and opt.get("replace") is None:
        want = "Found %d instances of the search_pattern in the structure\n%s\n" % (len(results), results)
        if want not in res.output:
            ctx.fail("%sfind-only run printed %r, the API finds %r" % (label, res.output[-300:], want[-300:]), witness=w)
        st.count("find_only_runs")
    # 3. the spy: every option reached the call it names
    calls = [e for e in log if e["ev"] in ("replace.call", "find.call", "replicate.call", "cli.pp")]
    reps = [e for e in log if e["ev"] == "replicate.call"]
    rep_calls = [e for e in log if e["ev"] == "replace.call"]
    want_reps = []
    if opt.get("replicate") is not None:
        want_reps.append(tuple(opt["replicate"]))
    if opt.get("mic") is not None and opt.get("_ortho"):
        want_reps.append(tuple(int(x) for x in opt["_mic_repls"]))
    if [tuple(e["repldims"]) for e in reps] != want_reps:
        ctx.fail("%sreplication calls made by the command: %s, options ask for %s" % (label, [tuple(e["repldims"]) for e in reps], want_reps), witness=w)
    if opt.get("replace") is not None and opt.get("find") is not None:
        if len(rep_calls) != 1:
            ctx.fail("%sthe command made %d replacement calls" % (label, len(rep_calls)), witness=w)
        else:
            kw = rep_calls[0]["kwargs"]
            h = opt.get("hints") or (None, None, None)
            exp = {"atol": opt.get("atol", 5e-2) if opt.get("atol") is not None else 5e-2, "replace_fraction": opt.get("fraction") if opt.get("fraction") is not None else 1.0,
                   "axisp1_idx": h[0], "axisp2_idx": h[1], "opoint_idx": h[2]}
            for k, v in exp.items():
                if kw.get(k, {"atol": 5e-2, "replace_fraction": 1.0}.get(k)) != v:
                    ctx.fail("%soption %s=%r did not reach the replacement call (it received %r)" % (label, k, v, kw.get(k, "<default>")), witness=w)
            order = [e["ev"] for e in calls]
            if "replicate.call" in order and order.index("replace.call") < max(i for i, x in enumerate(order) if x == "replicate.call"):
                ctx.fail("%sthe command replaced before it replicated" % label, witness=w)
            before = rep_calls[0]["before"]
            if opt.get("charges") is not None and before is not None:
                nrep = len(before[0]) // len(opt["charges"])
                if not np.array_equal(np.asarray(before[0].charges, float), np.tile(np.array(opt["charges"], float), nrep)):
                    ctx.fail("%sthe charges from the charge file did not reach the structure handed to the replacement" % label, witness=w)
    if opt.get("find") is not None and opt.get("replace") is None:
        fc = [e for e in log if e["ev"] == "find.call"]
        if len(fc) != 1 or fc[0]["atol"] != (opt["atol"] if opt.get("atol") is not None else 5e-2):
            ctx.fail("%sfind-only: the search call received atol %s, option says %s" % (label, [e["atol"] for e in fc], opt.get("atol")), witness=w)
    npp = len([e for e in log if e["ev"] == "cli.pp"])
    if npp != (1 if opt.get("pp") else 0):
        ctx.fail("%spair assignment was called %d times, option --pp is %s" % (label, npp, bool(opt.get("pp"))), witness=w)
    st.count("spy_checks")
    return True


def run_case(case, ctx):
    from mofun import Atoms
    rng = np.random.default_rng(case["s"])
    st = ctx.stats
    tmp = tempfile.mkdtemp(prefix="vmon-c20-")
    try:
        if case["kind"] == "docs":
            return docs_example(ctx, st, case, tmp, rng)
        if case["kind"] == "cml_conversion":
            n = int(rng.integers(1, 12))
            els = [["C", "H", "O", "N", "Zr"][int(i)] for i in rng.integers(0, 5, n)]
            pos = rng.uniform(-5, 5, (n, 3))
            inp = os.path.join(tmp, "in.cml")
            write_cml(inp, els, pos, bonds=[(i, i + 1) for i in range(n - 1)])
            opt = {"charges": [float(x) for x in np.round(rng.uniform(-1, 1, n), 3)] if rng.integers(2) else None, "long": bool(rng.integers(2))}
            if case["outformat"] == "xyz":
                opt["framework"] = "Si"
            if opt["charges"] is not None:
                opt["chargefile"] = os.path.join(tmp, "q.txt")
                with open(opt["chargefile"], "w") as f:
                    f.write("\n".join(repr(x) for x in opt["charges"]) + "\n\n")
            ok = compare_run(ctx, st, inp, os.path.join(tmp, "cli." + case["outformat"]), os.path.join(tmp, "api." + case["outformat"]), opt, case["s"],
                             {"kind": "cml_conversion", "n": n, "out": case["outformat"]})
            st.seen("io", "cml->%s" % case["outformat"])
            if opt.get("framework"):
                st.count("framework_element_runs")
            ctx.nontrivial(["cml", case["s"]])
            return
        # --- generated structure
        atol_plant = 0.3 if case["single"] == "atol" or (case["single"] is None and rng.integers(4) == 0) else 0.05
        pcls = ["asym4", "twofold", "pair_hetero", "single", "chiral4", "pyramid_c3v", "asym5"][int(rng.integers(7))]
        pat = patterns.make(rng, pcls)
        k = int(rng.integers(1, 4))
        built = planted.build(rng, pat, case["cell"], atol_plant, n_copies=k, crossings=[int(x) for x in rng.integers(0, 4, k)], n_bystanders=int(rng.integers(1, 6)),
                              n_distractors=0, perturb=0.3 if atol_plant == 0.3 else 0.08, min_sep=1.35)
        S = built["atoms"]
        if case["single"] == "findonly":
            # a hub: one atom bonded to three or four like neighbours, searched for as (centre, neighbour) - several matches begin
            # with the same structure atom (a report keyed by the first atom of a match would lose them)
            from mofun import Atoms as _Atoms
            cm = np.array(S.cell, float)
            d_hub = float(rng.uniform(1.5, 1.7))
            for _try in range(400):
                c0 = rng.uniform(0.1, 0.9, 3).dot(cm)
                dirs = np.array([[1, 1, 1], [1, -1, -1], [-1, 1, -1], [-1, -1, 1]], float)[: int(rng.integers(3, 5))] / np.sqrt(3.0)
                hub = np.vstack([c0[None, :], c0[None, :] + d_hub * dirs.dot(G.random_rotation(rng).T)])
                # (P and F occur nowhere else: the clearance only has to keep atoms apart; it is lowered when the cell is crowded)
                clear = 3.6 if _try < 60 else 2.2
                if float(G.equal_mod_lattice(cm, np.asarray(S.positions, float), hub[:, None, :].reshape(-1, 3)[0][None, :]).min()) > clear and \
                        min(float(G.equal_mod_lattice(cm, np.asarray(S.positions, float), h[None, :]).min()) for h in hub) > min(2.0, clear - 0.4):
                    S.extend(_Atoms(elements=["P"] + ["F"] * (len(hub) - 1), positions=G.wrap(cm, hub)))
                    pat = {"elements": ["P", "F"], "positions": np.array([[0.0, 0.0, 0.0], [d_hub, 0.0, 0.0]]), "cls": "hub_arm", "continuous_symmetry": "line"}
                    st.count("find_only_runs_whose_matches_share_their_first_atom")
                    break
        S.charges = np.round(rng.uniform(-1, 1, len(S)), 4)
        ortho = bool(S.cell_is_orthorhombic())
        if case["informat"] == "lmpdat" and rng.integers(2):
            # a typed input file: two atom types of one element (C_R / C_3 ...), as force-field typed LAMMPS files have them
            els_ = [str(e) for e in S.atom_type_elements]
            t = int(rng.integers(len(els_)))
            members = [i for i in range(len(S)) if int(S.atom_types[i]) == t]
            if len(members) >= 2:
                S.atom_type_elements = els_ + [els_[t]]
                S.atom_type_masses = [float(m) for m in S.atom_type_masses] + [float(S.atom_type_masses[t])]
                S.atom_type_labels = [str(l) for l in S.atom_type_labels] + [str(S.atom_type_labels[t]) + "_b"]
                S.atom_types = np.array(S.atom_types)
                S.atom_types[members[1::2]] = len(els_)
                st.count("inputs_with_two_atom_types_of_one_element")
        if rng.integers(3) == 0:
            # atoms stored un-wrapped (LAMMPS dumps, Cartesian CIFs): a third of them moved out of the box by lattice vectors
            cm = np.array(S.cell, float)
            for i_ in rng.choice(len(S), size=max(1, len(S) // 3), replace=False):
                S.positions[int(i_)] += rng.integers(-1, 2, 3).astype(float).dot(cm)
            st.count("inputs_with_atoms_outside_the_cell")
        inp = os.path.join(tmp, "in." + case["informat"])
        S.save(inp)
        rep = replcase.make_replacement(rng, pat, ["equal_substitution", "larger_shared", "smaller_shared", "far_reaching", "empty"][int(rng.integers(5))])
        fpath = os.path.join(tmp, "find." + case["pattern_format"])
        save_pattern(fpath, case["pattern_format"], pat["elements"], pat["positions"])
        opt = {"find": fpath, "long": bool(rng.integers(2)), "_ortho": ortho}
        single = case["single"]
        chosen = {single} if single else {o for o in OPTS[:8] if rng.integers(3) == 0}
        if single == "findonly" or (single is None and rng.integers(5) == 0):
            chosen.add("findonly")
        if "findonly" not in chosen and len(rep["elements"]) > 0:
            rpath = os.path.join(tmp, "repl." + case["pattern_format"])
            save_pattern(rpath, case["pattern_format"], rep["elements"], rep["positions"])
            opt["replace"] = rpath
        elif "findonly" not in chosen:
            chosen.add("findonly")
        if "replace_without_find" in chosen and opt.get("replace") is not None:
            # documented: a replacement without a find pattern is refused with a message; everything else still happens
            del opt["find"]
            st.count("replace_without_find_runs")
        if "atol" in chosen or atol_plant == 0.3:
            opt["atol"] = 0.3 if atol_plant == 0.3 else 0.08
        if "fraction" in chosen:
            opt["fraction"] = [0.5, 0.34, 0.0, 0.75][int(rng.integers(4))]
        if "hints" in chosen:
            hs = patterns.valid_hint_sets(pat, rng, k=2)
            opt["hints"] = hs[int(rng.integers(1, len(hs)))] if len(hs) > 1 else None
            if (0, None, None) in hs and rng.integers(2):
                opt["hints"] = (0, None, None)        # '-ap1 0' alone: index 0 is a valid hint
            if opt["hints"] is not None and 0 in opt["hints"]:
                st.count("hints_with_index_0")
        if "replicate" in chosen:
            opt["replicate"] = [[1, 1, 2], [2, 1, 1], [1, 2, 1], [2, 1, 2]][int(rng.integers(4))]
        if "mic" in chosen:
            cellnow = np.diag(S.cell) * (np.array(opt["replicate"]) if opt.get("replicate") else 1)
            opt["mic"] = float(np.round(rng.uniform(0.3, 0.75) * cellnow.min(), 2))
            if case["s"] % 3 == 1 and ortho:
                # a cut-off that is exactly k/2 edge lengths of the cell as the input file states it: k images suffice, not k + 1
                from mofun import Atoms as _A
                cellnow = np.diag(np.array(_A.load(inp).cell, float)) * (np.array(opt["replicate"]) if opt.get("replicate") else 1)
                ax = int(rng.integers(3))
                k = int(rng.integers(1, 3))
                opt["mic"] = float(k * cellnow[ax] / 2)
                if 2 * opt["mic"] / cellnow[ax] == k:
                    st.count("mic_values_that_are_an_exact_multiple_of_half_an_edge")
            if case["s"] % 3 == 0:
                # a cut-off that one cell edge only just misses (or only just meets): 2*mic is k edge lengths, give or take 2e-4 of one
                ax = int(rng.integers(3))
                k = int(rng.integers(1, 3))
                opt["mic"] = float(k * cellnow[ax] / 2 * (1 + [2e-4, -2e-4][case["s"] // 3 % 2]))
                st.count("mic_values_within_a_few_1e-4_of_a_multiple_of_an_edge")
            opt["_mic_repls"] = np.array(np.ceil(2 * opt["mic"] / cellnow), dtype=int) if ortho else None
        if "charges" in chosen:
            opt["charges"] = [float(x) for x in np.round(rng.uniform(-2, 2, len(S)), 3)]
            if case["s"] % 2 == 0:
                # very small charges, which print in exponent notation (1e-05), and a file written with %e throughout
                opt["charges"][0] = 1e-05
                opt["charges"][-1] = -2.5e-06
                st.count("charge_files_with_numbers_in_exponent_notation")
            opt["chargefile"] = os.path.join(tmp, "q.txt")
            with open(opt["chargefile"], "w") as f:
                f.write("\n".join((repr(x) if case["s"] % 4 else "%.6e" % x) for x in opt["charges"]) + "\n")
            if case["s"] % 4 == 0:
                opt["charges"] = [float("%.6e" % x) for x in opt["charges"]]
        if "pp" in chosen:
            opt["pp"] = True
        outfmt = case["outformat"]
        if "framework" in chosen:
            opt["framework"] = "Si"
            outfmt = "xyz"
        w = {"kind": "generated", "options": sorted(chosen), "in": case["informat"], "out": outfmt, "pattern_format": case["pattern_format"], "cell": case["cell"],
             "pattern_class": pcls, "n_atoms": len(S), "planted": built["planted"]}
        ok = compare_run(ctx, st, inp, os.path.join(tmp, "cli." + outfmt), os.path.join(tmp, "api." + outfmt), opt, case["s"], w)
        if ok and ("charges" in chosen or "pp" in chosen):
            # a history: the command is run again in the same process on the same, untouched input file, this time without the
            # charges / pair-parameter options - what the first run did to its structure must not show in the second's output
            opt2 = {k_: v_ for k_, v_ in opt.items() if k_ not in ("charges", "chargefile", "pp")}
            compare_run(ctx, st, inp, os.path.join(tmp, "cli2." + outfmt), os.path.join(tmp, "api2." + outfmt), opt2, case["s"] + 1,
                        dict(w, options=sorted(chosen - {"charges", "pp"}), history="second run in the same process on the same input file, without -q / --pp"),
                        label="second run on the same input file: ")
            st.count("second_runs_on_the_same_input_file_in_one_process")
        for o in chosen:
            st.seen("option_exercised", o)
        if single:
            st.seen("option_exercised_singly", single)
        st.seen("io", "%s->%s" % (case["informat"], outfmt))
        st.seen("pattern_format", case["pattern_format"])
        if opt.get("framework"):
            st.count("framework_element_runs")
        if ok and chosen - {"none"}:
            ctx.nontrivial(case["s"])
            if len(S) <= 14:
                ctx.sample({"argv": [os.path.basename(a) if os.sep in a else a for a in cli_args(inp, "out." + outfmt, opt)], "n_atoms": len(S), "planted": built["planted"]})
    finally:
        shutil.rmtree(tmp, ignore_errors=True)


def docs_example(ctx, st, case, tmp, rng):
    ex = boot.repo_path("docs", "examples")
    e = case["example"]
    j = lambda name: os.path.join(ex, name)
    if e == "ex1":
        opt, inp, out = {"find": j("uio66-linker.cml"), "replace": j("uio66-linker-oh.cml"), "long": True}, j("uio66.cif"), "uio66-oh.cif"
    elif e == "ex2":
        opt, inp, out = {"find": j("uio66-linker.cml"), "replace": j("uio66-linker-defective.cml"), "replicate": [2, 2, 2], "fraction": 0.10, "long": True}, j("uio66.cif"), "uio66-defective-10.lmpdat"
    elif e == "ex3a":
        opt, inp, out = {"find": j("uio66-metal-center.cml"), "replace": j("uio66-metal-center-parameterized.lmpdat"), "long": True}, j("uio66.cif"), "uio66-param1.lmpdat"
    elif e == "ex3b":
        # second command of Example 3 on the output of the first
        first = os.path.join(tmp, "uio66-param1.lmpdat")
        api_pipeline(j("uio66.cif"), first, {"find": j("uio66-metal-center.cml"), "replace": j("uio66-metal-center-parameterized.lmpdat")}, 1)
        opt, inp, out = {"find": j("uio66-linker-Zr.cml"), "replace": j("uio66-linker-Zr-parameterized.lmpdat"), "long": True}, first, "uio66-parameterized.lmpdat"
    elif e == "ex4a":
        opt, inp, out = {"find": j("uio66-metal-center-simple.cml"), "replace": j("uio66-metal-center-hf1.cml"), "replicate": [2, 2, 2], "fraction": 0.4, "long": True}, j("uio66.cif"), "uio66-zrhf1.cif"
    else:
        opt, inp, out = {"find": j("uio66-metal-center-simple.cml"), "replace": j("uio66-metal-center-hf2.cml"), "fraction": 0.4, "long": True}, j("uio66.cif"), "uio66-zrhf.cif"
    ok = compare_run(ctx, st, inp, os.path.join(tmp, "cli-" + out), os.path.join(tmp, "api-" + out), opt, case["s"], {"kind": "docs", "example": e}, label="documented example %s: " % e)
    st.seen("docs_example", e)
    if ok:
        ctx.nontrivial(["docs", e])
        ctx.sample({"documented_example": e, "argv": [os.path.basename(a) if os.sep in a else a for a in cli_args(inp, out, opt)]})


def requirements(stats, tier):
    need = []
    if stats.get("second_runs_on_the_same_input_file_in_one_process") < (15 if tier == "quick" else 1500):
        need.append("second runs on the same input file in one process: %d" % stats.get("second_runs_on_the_same_input_file_in_one_process"))
    for o in OPTS[:9] + ["replace_without_find"]:
        if not stats.has("option_exercised_singly", o):
            need.append("option class %s never exercised singly" % o)
    if stats.get("charge_files_with_numbers_in_exponent_notation") < (5 if tier == "quick" else 500):
        need.append("charge files with numbers in exponent notation: %d" % stats.get("charge_files_with_numbers_in_exponent_notation"))
    if stats.get("mic_values_that_are_an_exact_multiple_of_half_an_edge") < (5 if tier == "quick" else 500):
        need.append("--mic values that are exactly k/2 edge lengths: %d" % stats.get("mic_values_that_are_an_exact_multiple_of_half_an_edge"))
    if stats.get("mic_values_within_a_few_1e-4_of_a_multiple_of_an_edge") < (5 if tier == "quick" else 500):
        need.append("--mic values that a cell edge only just misses or meets: %d" % stats.get("mic_values_within_a_few_1e-4_of_a_multiple_of_an_edge"))
    if stats.get("outputs_compared") < (180 if tier == "quick" else 30000):
        need.append("outputs compared: %d" % stats.get("outputs_compared"))
    io_ = stats.sets.get("io", set())
    for x in ("cif->lmpdat", "cif->cif", "lmpdat->lmpdat", "lmpdat->cif", "cml->lmpdat"):
        if x not in io_:
            need.append("format combination %s not observed" % x)
    if stats.get("inputs_with_two_atom_types_of_one_element") < 5:
        need.append("typed inputs with two atom types of one element: %d" % stats.get("inputs_with_two_atom_types_of_one_element"))
    if stats.get("framework_element_runs") < 5:
        need.append("--framework-element runs: %d" % stats.get("framework_element_runs"))
    if stats.nseen("docs_example") < 4:
        need.append("documented examples run: %s" % sorted(stats.sets.get("docs_example", [])))
    if stats.get("hints_with_index_0") < 3:
        need.append("index-0 hints on the command line: %d" % stats.get("hints_with_index_0"))
    both = sum(v for k, v in stats.counts.items() if k.startswith("both_raised."))
    if both > 0.1 * max(1, stats.get("cli_runs")):
        need.append("command and API pipeline both raised in %d of %d runs: too little was observed (%s)" % (both, stats.get("cli_runs"), sorted(k for k in stats.counts if k.startswith("both_raised."))))
    if stats.get("find_only_runs_whose_matches_share_their_first_atom") < (3 if tier == "quick" else 100):
        need.append("find-only runs whose matches share their first atom: %d" % stats.get("find_only_runs_whose_matches_share_their_first_atom"))
    if stats.get("find_only_runs") < 10:
        need.append("find-only runs: %d" % stats.get("find_only_runs"))
    return need
