"""C16 - CML molecules load faithfully."""
import io
import os
import shutil
import tempfile

import numpy as np

PROPERTY = "C16"
RULE = ("The harness writes CML documents of the Avogadro flavour (molecule/atomArray/atom[id,elementType,x3,y3,z3], "
        "bondArray/bond[atomRefs2,order], optional extra attributes, optional XML declaration, with or without "
        "bondArray; the molecule as document root or inside <cml>, <list>, <cml><list> or an outer <molecule>) from a known atom and bond list: 1-40 atoms; id schemes a1..an in order, shuffled, non-sequential, "
        "arbitrary strings; bond lists empty / random / reversed references; coordinates of any sign and magnitude "
        "written as decimals, integers or exponents (also 25.E-1, +1.25, .5, 1.25E+00, 5.), coordinates that are exactly zero in six "
        "spellings, x2/y2 (xFract.., hydrogenCount) beside x3/y3/z3 on the same atom entry. The real loader's result is compared with the list; loading "
        "from a path (str and pathlib), from an open file and through Atoms.load(..., 'cml') must agree. The "
        "repository's own .cml files are loaded all three ways too. Non-trivial: id scheme other than in-order "
        "a1..an, or no bonds; distinct by generator seed.")
ASSUMPTIONS = ["documents are well-formed XML with one molecule; every bond carries an 'order' attribute as Avogadro writes it"]
ANCHOR_FUNCS = [("mofun/atoms.py", "Atoms.load_cml")]
REQUIRED_LINES = [("mofun/atoms.py", "id_to_idx = {id:i for i, id in enumerate(ids)}")]
JOBS = {"quick": 2, "thorough": 8}
ELS = ["C", "H", "O", "N", "Zr", "Cu", "F", "S", "Cl", "Hf"]


def cases(tier, seed):
    rng = np.random.default_rng([16, seed])
    n = 300 if tier == "quick" else 100000
    out = [{"s": int(rng.integers(1 << 30)), "ids": ["inorder", "shuffled", "nonsequential", "strings", "case_variants", "one_character"][j % 6],
            "bonds": ["none", "random", "reversed", "no_bondarray"][(j // 4) % 4], "n": [1, 2, 3, 5, 16, 40][(j // 16) % 6] if j % 3 == 0 else None}
           for j in range(n)]
    # molecules of 257 .. 700 atoms (a large linker, a cluster cut from a framework): counts beyond one byte / the small-integer cache
    for j in range(6 if tier == "quick" else 300):
        out.append({"s": int(rng.integers(1 << 30)), "ids": ["inorder", "shuffled", "nonsequential", "strings", "case_variants", "inorder"][j % 6],
                    "bonds": ["random", "none", "reversed"][j % 3], "n": [257, 300, 513, 700, 258, 260][j % 6]})
    out.append({"repo_files": True, "s": 0})
    return out


def fmt(x, rng):
    r = int(rng.integers(10))
    if r >= 5 and abs(x) < 1e15 and abs(x) > 1e-15:
        # other legal spellings of a decimal number (xsd:double, and what float() reads): an explicit plus sign, no digit before
        # or after the point, an upper-case exponent letter, a bare point ahead of the exponent
        if r == 5:
            k = int(rng.integers(0, 4))
            return "%d.%s%+d" % (round(x * 10 ** k), "eE"[int(rng.integers(2))], -k)          # 25.E-1
        if r == 6:
            return "%+.4f" % x                                                              # +1.2500
        if r == 7:
            t = "%.4f" % x
            return t.replace("0.", ".", 1) if t.startswith(("0.", "-0.")) else t             # .5000 / -.5000
        if r == 8:
            return "%.5E" % x                                                               # 1.25000E+00
        return "%d." % round(x)                                                             # 5.
    r = r % 5
    if r == 0:
        return "%.5f" % x
    if r == 1:
        return repr(float(x))
    if r == 2:
        return "%d" % round(x)
    if r == 3:
        return "%.6e" % x
    return "%.3f" % x


def build(rng, case):
    n = case["n"] or int(rng.integers(1, 41))

    els = [ELS[int(i)] for i in rng.integers(0, len(ELS), n)]
    scale = float(rng.choice([1.0, 10.0, 1e3, 1e-3]))
    if case["s"] % 6 == 5:
        # "coordinates of any magnitude": astronomically large and vanishingly small numbers are numbers too
        scale = float([1e6, 1e160, 1e250, 1e-160, 1e-300, 3e154][case["s"] // 6 % 6])
        case["_extreme_magnitude"] = True
    coords = [[fmt(v, rng) for v in rng.uniform(-1, 1, 3) * scale] for _ in range(n)]
    if case["s"] % 4 == 3:
        # planar / axial molecules and an atom at the origin: coordinates that are exactly zero, in the spellings writers use.
        # A stated zero is a stated value like any other.
        zeros = ["0", "0.0", "0.00000", "-0.0", "0.000000e+00", "-0.00000"]
        axis = int(rng.integers(3))
        for i in range(n):
            r = int(rng.integers(4))
            if r == 0:
                coords[i][axis] = zeros[int(rng.integers(len(zeros)))]
            elif r == 1:
                coords[i] = [zeros[int(rng.integers(len(zeros)))] for _ in range(3)]
            elif r == 2:
                coords[i][int(rng.integers(3))] = zeros[int(rng.integers(len(zeros)))]
        case["_zero_coordinates"] = True
    if case["ids"] == "one_character":
        # ids of a single character (1..9, a, b, ... as small hand-written files have them), next to two-letter element symbols
        pool = list("123456789abcdefghijklmnopqrstuvwxyzABCDEFGHIJKLMNOPQRSTUVWXYZ")
        n = min(n, len(pool))
        els, coords = els[:n], coords[:n]
        ids = [pool[int(i)] for i in (rng.permutation(len(pool))[:n] if rng.integers(2) else np.arange(n))]
    elif case["ids"] == "inorder":
        ids = ["a%d" % (i + 1) for i in range(n)]
    elif case["ids"] == "shuffled":
        ids = ["a%d" % (i + 1) for i in rng.permutation(n)]
    elif case["ids"] == "nonsequential":
        ids = ["a%d" % v for v in rng.choice(10 * n + 5, size=n, replace=False)]
    elif case["ids"] == "case_variants":
        # ids that differ only in letter case (PDB-style CA = alpha carbon vs Ca = calcium); XML ids are case-sensitive
        stems = ["ca", "CA", "Ca", "cA", "zn", "ZN", "Zn", "a", "A", "ab", "AB", "aB", "Ab"]
        ids = []
        k = 0
        while len(ids) < n:
            for s_ in stems:
                ids.append(s_ + (str(k) if k else ""))
                if len(ids) == n:
                    break
            k += 1
        ids = [ids[i] for i in rng.permutation(n)]
    else:
        pool = ["x", "atom-", "Zr_", "C", "n.", "q:"]
        ids = ["%s%d%s" % (pool[int(rng.integers(len(pool)))], k, "b" * int(rng.integers(3))) for k in rng.choice(1000, size=n, replace=False)]
    bonds = []
    if case["bonds"] in ("random", "reversed") and n >= 2:
        m = int(rng.integers(1, 2 * n))
        seen = set()
        for _ in range(m):
            i, j = [int(v) for v in rng.choice(n, size=2, replace=False)]
            if case["bonds"] != "reversed" and i > j and rng.integers(2):
                i, j = j, i
            if case["bonds"] == "reversed" and i < j:
                i, j = j, i
            if (i, j) in seen:
                continue
            seen.add((i, j))
            bonds.append((i, j, ["1", "2", "1.5", "3"][int(rng.integers(4))]))
        if bonds and case["s"] % 4 == 2:
            # the same pair listed again, in the same order (a double bond written as two entries, a hand-merged file): every
            # bond entry is a bond
            for _ in range(int(rng.integers(1, 3))):
                i, j, o = bonds[int(rng.integers(len(bonds)))]
                bonds.insert(int(rng.integers(len(bonds) + 1)), (i, j, ["1", o][int(rng.integers(2))]))
            case["_repeated_bond_entries"] = True
    lines = []
    if rng.integers(2):
        lines.append('<?xml version="1.0" encoding="UTF-8"?>')
    lines.append('<molecule xmlns="http://www.xml-cml.org/schema">' if False else "<molecule>")
    lines.append(" <atomArray>")
    for i in range(n):
        extra = ""
        if rng.integers(4) == 0:
            extra = ' formalCharge="%d"' % rng.integers(-2, 3)
        if rng.integers(6) == 0:
            extra += ' isotope="13"'
        if case["s"] % 5 in (1, 3):
            # writers that keep the 2D depiction beside the 3D geometry (Open Babel, Marvin, BKChem): x2/y2 (and sometimes the
            # fractional xFract..) stand next to x3/y3/z3 on the same atom entry and have other values; the property names x3/y3/z3
            extra += ' x2="%s" y2="%s"' % (fmt(rng.uniform(-9, 9), rng), fmt(rng.uniform(-9, 9), rng))
            if case["s"] % 10 == 3:
                extra += ' xFract="%.4f" yFract="%.4f" zFract="%.4f"' % tuple(rng.uniform(0, 1, 3))
            if rng.integers(3) == 0:
                extra += ' hydrogenCount="%d" spinMultiplicity="1"' % rng.integers(0, 4)
            case["_depiction_coordinates"] = True
        attrs = ['id="%s"' % ids[i], 'elementType="%s"' % els[i]] + extra.split() + ['x3="%s"' % coords[i][0], 'y3="%s"' % coords[i][1], 'z3="%s"' % coords[i][2]]
        if case["s"] % 3 == 1:
            # the attributes of an element carry no order: written as another serializer (or a hand edit) may leave them
            attrs = [attrs[k] for k in np.random.default_rng([case["s"], i]).permutation(len(attrs))]
            case["_attribute_order"] = True
        lines.append('  <atom %s/>' % " ".join(attrs))
    lines.append(" </atomArray>")
    if case["bonds"] != "no_bondarray":
        lines.append(" <bondArray>")
        for i, j, order in bonds:
            sep = " " if rng.integers(4) else "  "
            lines.append('  <bond atomRefs2="%s%s%s" order="%s"/>' % (ids[i], sep, ids[j], order))
        lines.append(" </bondArray>")
    lines.append("</molecule>")
    if n >= 2 and rng.integers(4) == 0:
        # the atoms spread over two child molecules, each with its own atomArray; the bonds (which may join the two) in bondArrays
        # of the children and of the parent. Ids are unique in the document; document order is the atom order.
        head = [l for l in lines if l.startswith("<?xml")]
        atom_lines = [l for l in lines if l.lstrip().startswith("<atom ")]
        bond_lines = [l for l in lines if l.lstrip().startswith("<bond ")]
        cut = int(rng.integers(1, n))
        inner = {0: [], 1: [], 2: []}
        for (i, j, order), bl in zip(bonds, bond_lines):
            inner[0 if max(i, j) < cut else (1 if min(i, j) >= cut else 2)].append(bl)
        lines = head + ['<molecule id="parent">']
        for part, al in ((0, atom_lines[:cut]), (1, atom_lines[cut:])):
            lines += [' <molecule id="part%d">' % part, "  <atomArray>"] + ["  " + l for l in al] + ["  </atomArray>"]
            if inner[part]:
                lines += ["  <bondArray>"] + ["  " + l for l in inner[part]] + ["  </bondArray>"]
            lines += [" </molecule>"]
        if inner[2]:
            lines += [" <bondArray>"] + inner[2] + [" </bondArray>"]
        lines.append("</molecule>")
        case["_parts"] = True
        # the loader lists bonds in document order, the comparison is order-free
    if not case.get("_parts") and case["s"] % 5 == 2 and bonds and " <bondArray>" in lines:
        # the order of the two child arrays of a molecule carries no meaning: the bond array written ahead of the atom array
        b0, b1 = lines.index(" <bondArray>"), lines.index(" </bondArray>")
        block = lines[b0:b1 + 1]
        del lines[b0:b1 + 1]
        a0 = lines.index(" <atomArray>")
        lines[a0:a0] = block
        case["_bonds_first"] = True
    # the molecule inside the wrappers CML documents come in (no namespace declaration, as in the repository's own files)
    wrap = int(rng.integers(5))
    case["_wrap"] = ["molecule-is-root", "cml", "list", "cml/list", "molecule-in-molecule"][wrap]
    if wrap:
        head = [l for l in lines if l.startswith("<?xml")]
        body = [l for l in lines if not l.startswith("<?xml")]
        open_, close_ = {1: (["<cml>"], ["</cml>"]), 2: (['<list title="molecules">'], ["</list>"]), 3: (["<cml>", " <list>"], [" </list>", "</cml>"]),
                         4: (['<molecule id="outer">'], ["</molecule>"])}[wrap]
        lines = head + open_ + ["  " + l for l in body] + close_
    return "\n".join(lines) + "\n", els, [[float(v) for v in c] for c in coords], [(i, j) for i, j, _ in bonds], ids


def check_loaded(a, els, coords, bonds, fail, how):
    if list(a.elements) != list(els):
        fail("%s: elements %s, document says %s" % (how, list(a.elements)[:8], els[:8]))
        return
    if len(a) != len(els):
        fail("%s: %d atoms for %d atom entries" % (how, len(a), len(els)))
        return
    if not np.array_equal(np.asarray(a.positions, float), np.asarray(coords, float)):
        d = np.abs(np.asarray(a.positions, float) - np.asarray(coords, float)).max()
        fail("%s: coordinates differ from the x3/y3/z3 attributes by up to %.3g" % (how, d))
    # a bond joins two atoms: direction within a pair and order of the list are not part of the statement
    got = sorted(tuple(sorted(int(v) for v in b)) for b in np.asarray(a.bonds).reshape(-1, 2))
    if got != sorted(tuple(sorted(b)) for b in bonds):
        fail("%s: bonds %s, document says %s" % (how, got[:6], list(bonds)[:6]))
    if len(a.bond_types) != len(bonds):
        fail("%s: %d bond types for %d bonds" % (how, len(a.bond_types), len(bonds)))


def load_all_ways(text, fail):
    from mofun import Atoms
    import pathlib
    res = {}
    from vmon.oracle.util import worker_dir
    d = None
    try:
        # the same path from case to case, each time with other content
        p = os.path.join(worker_dir(), "m.cml")
        from vmon.oracle.util import prime_path
        prime_path(p)
        with open(p, "w") as f:
            f.write(text)
        ways = {
            "load_cml(str path)": lambda: Atoms.load_cml(p),
            "load_cml(pathlib)": lambda: Atoms.load_cml(pathlib.Path(p)),
            "load_cml(path, verbose=True)": lambda: _quiet(lambda: Atoms.load_cml(p, verbose=True)),
            "load_cml(open file)": lambda: _with_open(p, Atoms.load_cml),
            "Atoms.load(path)": lambda: Atoms.load(p),
            "Atoms.load(pathlib)": lambda: Atoms.load(pathlib.Path(p)),
            "Atoms.load(file,'cml')": lambda: _with_open(p, lambda fh: Atoms.load(fh, filetype="cml")),
            "Atoms.load(StringIO,'cml')": lambda: Atoms.load(io.StringIO(text), filetype="cml"),
            "load_cml(stream that cannot seek)": lambda: Atoms.load_cml(_Pipe(text)),
            "Atoms.load(stream that cannot seek,'cml')": lambda: Atoms.load(_Pipe(text), filetype="cml"),
            "load_cml(open file positioned behind a title line)": lambda: _positioned(p, text, Atoms.load_cml),
            "Atoms.load(path named .xml,'cml')": lambda: Atoms.load(_copy_as(p, "m.xml"), filetype="cml"),
            "Atoms.load(path named .cif,'cml')": lambda: Atoms.load(_copy_as(p, "m.cif"), filetype="cml"),
        }
        for how, fn in ways.items():
            try:
                res[how] = fn()
            except Exception as e:
                if type(e).__name__ == "PostBroken":
                    raise
                fail("%s raised %s: %s" % (how, type(e).__name__, str(e)[:160]))
    finally:
        pass
    return res


class _Pipe(io.TextIOBase):
    """a text stream as sys.stdin or the read end of a pipe is: it can be read once, front to back, and cannot seek or tell"""
    def __init__(self, text):
        self._s = io.StringIO(text)

    def readable(self):
        return True

    def seekable(self):
        return False

    def read(self, n=-1):
        return self._s.read(n)

    def readline(self, n=-1):
        return self._s.readline(n)

    def seek(self, *a):
        raise io.UnsupportedOperation("underlying stream is not seekable")

    def tell(self):
        raise io.UnsupportedOperation("underlying stream is not seekable")


def _positioned(p, text, fn):
    """the molecule preceded by a title line in the file; the caller has read that line and hands over the open file"""
    q = p + ".titled"
    body = text
    if body.startswith("<?xml"):
        body = body.split("\n", 1)[1]
    with open(q, "w") as f:
        f.write("linker 17, exported by the harness\n" + body)
    with open(q) as f:
        f.readline()
        return fn(f)


def _quiet(fn):
    import contextlib
    with contextlib.redirect_stdout(io.StringIO()):
        return fn()


def _copy_as(p, name):
    q = os.path.join(os.path.dirname(p), name)
    shutil.copyfile(p, q)
    return q


def _with_open(p, fn):
    with open(p) as fh:
        return fn(fh)


def run_case(case, ctx):
    st = ctx.stats
    if case.get("repo_files"):
        from vmon import boot
        import glob
        files = sorted(glob.glob(boot.repo_path("tests", "**", "*.cml"), recursive=True) + glob.glob(boot.repo_path("docs", "examples", "*.cml")))
        for p in files:
            text = open(p).read()
            res = load_all_ways(text, lambda m: ctx.fail("%s: %s" % (os.path.basename(p), m)))
            import xml.etree.ElementTree as ET
            root = ET.fromstring(text)
            atoms = [e.attrib for e in root.iter() if e.tag.split("}")[-1] == "atom"]
            bnds = [e.attrib for e in root.iter() if e.tag.split("}")[-1] == "bond"]
            ids = [x["id"] for x in atoms]
            els = [x["elementType"] for x in atoms]
            coords = [[float(x["x3"]), float(x["y3"]), float(x["z3"])] for x in atoms]
            bonds = [tuple(ids.index(r) for r in b["atomRefs2"].split()) for b in bnds]
            for how, a in res.items():
                check_loaded(a, els, coords, bonds, lambda m: ctx.fail("%s: %s" % (os.path.basename(p), m)), how)
            st.count("repo_files_loaded")
        ctx.sample({"repo_cml_files": [os.path.relpath(p, boot.REPO) for p in files]})
        return
    rng = np.random.default_rng(case["s"])
    text, els, coords, bonds, ids = build(rng, case)
    if len(els) > 256:
        ctx.stats.count("documents_with_more_than_256_atoms")
    w = {"ids": ids[:8], "n": len(els), "bonds": bonds[:8], "document_head": text.split("\n")[:8]}

    def fail(msg):
        ctx.fail(msg, witness=w)
    res = load_all_ways(text, fail)
    for how, a in res.items():
        check_loaded(a, els, coords, bonds, fail, how)
        st.count("loads_checked")
    # the same document as another writer would serialise it: CRLF line ends, single-quoted attributes
    from mofun import Atoms
    for vname, vt in (("CRLF line ends", text.replace("\n", "\r\n")), ("single-quoted attributes", text.replace('"', "'"))):
        try:
            check_loaded(Atoms.load(io.StringIO(vt), filetype="cml"), els, coords, bonds, fail, "document with " + vname)
            st.count("serialisation_variants")
        except Exception as e:
            if type(e).__name__ == "PostBroken":
                raise
            fail("document with %s raised %s: %s" % (vname, type(e).__name__, str(e)[:120]))
    st.count("documents")
    st.seen("id_scheme", case["ids"])
    st.seen("document_wrapper", case.get("_wrap"))
    if case.get("_attribute_order"):
        st.count("documents_with_atom_attributes_in_another_order")
    if case.get("_zero_coordinates"):
        st.count("documents_with_coordinates_that_are_exactly_zero")
    if case.get("_depiction_coordinates"):
        st.count("documents_with_x2_y2_beside_x3_y3_z3")
    if case.get("_zero_coordinates") and case.get("_depiction_coordinates"):
        st.count("documents_with_zero_x3_and_an_x2_beside_it")
    if case.get("_repeated_bond_entries"):
        st.count("documents_with_a_bond_entry_listed_twice")
    if case.get("_extreme_magnitude"):
        st.count("documents_with_coordinates_of_extreme_magnitude")
    if case.get("_bonds_first"):
        st.count("documents_with_the_bond_array_ahead_of_the_atom_array")
    if case.get("_parts") and bonds:
        st.count("documents_with_two_atom_arrays_and_bonds")
    if bonds:
        st.seen("document_wrapper_with_bonds", case.get("_wrap"))
    st.seen("bond_class", case["bonds"] + ("/empty" if not bonds else ""))
    st.seen("n_atoms", len(els))
    if len(bonds) == 0:
        st.count("documents_without_bonds")
    if case["ids"] != "inorder" or not bonds:
        ctx.nontrivial(case["s"])
    if case["ids"] == "strings" and bonds:
        ctx.sample({"document": text.split("\n")[:12], "expected_bonds": bonds[:6]})


def requirements(stats, tier):
    need = []
    if stats.get("documents_with_more_than_256_atoms") < (5 if tier == "quick" else 250):
        need.append("documents with more than 256 atoms: %d" % stats.get("documents_with_more_than_256_atoms"))
    if stats.get("loads_checked") < (1500 if tier == "quick" else 500000):
        need.append("too few loads observed: %d" % stats.get("loads_checked"))
    if stats.get("documents_with_a_bond_entry_listed_twice") < (5 if tier == "quick" else 1000):
        need.append("documents with a bond entry listed twice: %d" % stats.get("documents_with_a_bond_entry_listed_twice"))
    if stats.get("documents_with_coordinates_of_extreme_magnitude") < (20 if tier == "quick" else 5000):
        need.append("documents with coordinates of extreme magnitude (1e-300 .. 1e250): %d" % stats.get("documents_with_coordinates_of_extreme_magnitude"))
    if stats.get("documents_with_the_bond_array_ahead_of_the_atom_array") < (5 if tier == "quick" else 1000):
        need.append("documents with the bond array ahead of the atom array: %d" % stats.get("documents_with_the_bond_array_ahead_of_the_atom_array"))
    if stats.get("documents_with_atom_attributes_in_another_order") < (50 if tier == "quick" else 5000):
        need.append("documents whose atom attributes are written in another order: %d" % stats.get("documents_with_atom_attributes_in_another_order"))
    if stats.get("documents_with_coordinates_that_are_exactly_zero") < (30 if tier == "quick" else 5000):
        need.append("documents with coordinates that are exactly zero: %d" % stats.get("documents_with_coordinates_that_are_exactly_zero"))
    if stats.get("documents_with_x2_y2_beside_x3_y3_z3") < (50 if tier == "quick" else 5000):
        need.append("documents with x2/y2 beside x3/y3/z3: %d" % stats.get("documents_with_x2_y2_beside_x3_y3_z3"))
    if stats.get("documents_with_zero_x3_and_an_x2_beside_it") < (10 if tier == "quick" else 1000):
        need.append("documents with a zero x3 and an x2 beside it: %d" % stats.get("documents_with_zero_x3_and_an_x2_beside_it"))
    if stats.nseen("document_wrapper_with_bonds") < 5:
        need.append("document wrappers observed with bonds: %s" % sorted(stats.sets.get("document_wrapper_with_bonds", [])))
    if stats.get("documents_with_two_atom_arrays_and_bonds") < 10:
        need.append("documents whose atoms are spread over two atomArrays: %d" % stats.get("documents_with_two_atom_arrays_and_bonds"))
    if stats.nseen("id_scheme") < 6:
        need.append("not all id schemes observed")
    if stats.get("documents_without_bonds") < 20:
        need.append("fewer than 20 bond-free documents")
    if not stats.has("n_atoms", 1):
        need.append("no single-atom molecule observed")
    if stats.get("repo_files_loaded") < 5:
        need.append("repository CML files not loaded")
    return need
