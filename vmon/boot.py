"""Import the repository under observation from its working tree and make it quiet.

`boot()` must be called once per process before anything touches mofun.  It
 * puts VMON_REPO (default /repo) first on sys.path and refuses to continue (Inconclusive)
   if `mofun` does not come from there,
 * makes icontract importable (from /verif/.deps, installing it from the offline
   wheelhouse when missing); if that is impossible the contracts are attached with the
   small stand-in in vmon.contracts (same condition functions) and evidence says so,
 * shadows `print` inside the mofun modules with a counting no-op (the library prints a
   warning per constructed Atoms object and several lines per dihedral).
"""
import os
import subprocess
import sys

VERIF = os.path.dirname(os.path.dirname(os.path.abspath(__file__)))
REPO = os.path.abspath(os.environ.get("VMON_REPO", "/repo"))
DEPS = os.path.join(VERIF, ".deps")
WHEELS = "/opt/veriftools/wheels"


class Inconclusive(Exception):
    """The harness could not observe what it needs; never a verdict about mofun."""


PRINTS = {}          # first 40 chars of the message -> count
_booted = False
ICONTRACT = None     # module or None


def _quiet_print(*args, **kwargs):
    """counts what the library prints and behaves like print() to a terminal that only takes ASCII (PYTHONIOENCODING=ascii, the
    C locale, a redirected Windows console): a message that cannot be encoded raises there, at the print statement"""
    key = (str(args[0]) if args else "")[:48].strip()
    PRINTS[key] = PRINTS.get(key, 0) + 1
    if kwargs.get("file") is None:
        kwargs.get("sep", " ").join(str(a) for a in args).encode("ascii")


def ensure_deps():
    """Make icontract importable; returns the module or None."""
    global ICONTRACT
    if DEPS not in sys.path:
        sys.path.insert(1, DEPS)
    try:
        import icontract
        ICONTRACT = icontract
        return icontract
    except Exception:
        pass
    if os.path.isdir(WHEELS) and not os.environ.get("VMON_NO_INSTALL"):
        try:
            subprocess.run([sys.executable, "-m", "pip", "install", "-q", "--no-index", "--find-links", WHEELS,
                            "--target", DEPS, "icontract"], check=True, timeout=300,
                           stdout=subprocess.DEVNULL, stderr=subprocess.DEVNULL)
            import importlib
            importlib.invalidate_caches()
            import icontract
            ICONTRACT = icontract
            return icontract
        except Exception:
            pass
    ICONTRACT = None
    return None


def boot():
    global _booted
    if _booted:
        return
    # a script run with cwd=/repo would put /repo first anyway; make it explicit and checkable
    if REPO in sys.path:
        sys.path.remove(REPO)
    sys.path.insert(0, REPO)
    # the repository is installed "editable" through a meta-path finder that would win over sys.path;
    # drop it so that REPO (the working tree, or a scratch copy when VMON_REPO is set) is what gets imported
    sys.meta_path[:] = [f for f in sys.meta_path if "__editable__" not in getattr(f, "__module__", "") + getattr(f, "__name__", "")
                        or "mofun" not in getattr(f, "__module__", "")]
    for k in [k for k in sys.modules if k == "mofun" or k.startswith("mofun.")]:
        del sys.modules[k]
    ensure_deps()
    import mofun
    got = os.path.abspath(mofun.__file__)
    if not got.startswith(REPO + os.sep):
        raise Inconclusive("mofun imported from %s, not from %s" % (got, REPO))
    import mofun.atoms, mofun.mofun, mofun.helpers, mofun.rough_uff, mofun.detect_bonds
    import mofun.cli.mofun_cli
    for mod in (mofun.atoms, mofun.mofun, mofun.helpers, mofun.rough_uff, mofun.detect_bonds):
        mod.print = _quiet_print
    _booted = True


def repo_path(*parts):
    return os.path.join(REPO, *parts)
