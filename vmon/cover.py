"""Anchor-line coverage with sys.monitoring (LINE events, DISABLE after first hit)."""
import ast
import os
import sys

from vmon import boot

TOOL = 3
_hits = {}
_on = False


def start():
    global _on
    mon = getattr(sys, "monitoring", None)
    if mon is None or _on:
        return
    prefix = os.path.join(boot.REPO, "mofun") + os.sep

    def on_line(code, line):
        fn = code.co_filename
        if fn.startswith(prefix):
            _hits.setdefault(fn[len(boot.REPO) + 1:], set()).add(line)
        return mon.DISABLE

    try:
        mon.use_tool_id(TOOL, "vmon-cover")
    except ValueError:
        return
    mon.register_callback(TOOL, mon.events.LINE, on_line)
    mon.set_events(TOOL, mon.events.LINE)
    _on = True


def stop():
    global _on
    mon = getattr(sys, "monitoring", None)
    if mon is not None and _on:
        mon.set_events(TOOL, 0)
        mon.free_tool_id(TOOL)
        _on = False
    return {f: sorted(v) for f, v in _hits.items()}


def _func_lines(path, qualname):
    """statement-start lines of a (possibly nested / method) function, by name path 'A.b.c'."""
    try:
        src = open(path).read()
        tree = ast.parse(src)
    except Exception:
        return None
    node = tree
    for part in qualname.split("."):
        found = None
        for child in ast.walk(node) if node is tree else ast.iter_child_nodes(node):
            if isinstance(child, (ast.FunctionDef, ast.ClassDef, ast.AsyncFunctionDef)) and child.name == part:
                found = child
                break
        if found is None:
            # search deeper (nested functions)
            for child in ast.walk(node):
                if isinstance(child, (ast.FunctionDef, ast.ClassDef, ast.AsyncFunctionDef)) and child.name == part:
                    found = child
                    break
        if found is None:
            return None
        node = found
    lines = set()
    for n in ast.walk(node):
        if isinstance(n, ast.stmt) and n is not node:
            if isinstance(n, ast.Expr) and isinstance(getattr(n, "value", None), ast.Constant) and isinstance(n.value.value, str):
                continue  # docstring
            lines.add(n.lineno)
    return lines


def report(mod, cover):
    """-> (evidence dict, list of unmet required-line messages)."""
    rep = {"functions": {}, "required_lines": []}
    unmet = []
    hits = {f: set(v) for f, v in cover.items()}
    for rel, qual in getattr(mod, "ANCHOR_FUNCS", []):
        lines = _func_lines(os.path.join(boot.REPO, rel), qual)
        if lines is None:
            rep["functions"]["%s:%s" % (rel, qual)] = "not found in source"
            continue
        h = lines & hits.get(rel, set())
        rep["functions"]["%s:%s" % (rel, qual)] = {"statement_lines": len(lines), "hit": len(h),
                                                   "missed": sorted(lines - h)[:40]}
    for rel, snippet in getattr(mod, "REQUIRED_LINES", []):
        try:
            src = open(os.path.join(boot.REPO, rel)).read().split("\n")
        except Exception:
            src = []
        nums = [i + 1 for i, l in enumerate(src) if snippet in l]
        if not nums:
            rep["required_lines"].append({"file": rel, "snippet": snippet, "status": "snippet no longer in source; not required"})
            continue
        ok = any(nn in hits.get(rel, set()) for nn in nums)
        rep["required_lines"].append({"file": rel, "snippet": snippet, "lines": nums, "status": "hit" if ok else "NOT HIT"})
        if not ok:
            unmet.append("%s: %r" % (rel, snippet))
    return rep, unmet
