"""Counters and 'distinct values seen' sets that merge across worker processes."""
import json


class Stats:
    def __init__(self):
        self.counts = {}
        self.sets = {}

    def count(self, key, n=1):
        self.counts[key] = self.counts.get(key, 0) + n

    def seen(self, category, value):
        self.sets.setdefault(category, set()).add(value if isinstance(value, str) else json.dumps(value, sort_keys=True, default=str))

    def get(self, key):
        return self.counts.get(key, 0)

    def nseen(self, category):
        return len(self.sets.get(category, ()))

    def has(self, category, value):
        v = value if isinstance(value, str) else json.dumps(value, sort_keys=True, default=str)
        return v in self.sets.get(category, ())

    def merge(self, other):
        for k, v in other.counts.items():
            self.counts[k] = self.counts.get(k, 0) + v
        for k, v in other.sets.items():
            self.sets.setdefault(k, set()).update(v)

    def to_json(self):
        return {"counts": self.counts, "sets": {k: sorted(v) for k, v in self.sets.items()}}

    @classmethod
    def from_json(cls, d):
        s = cls()
        s.counts = dict(d.get("counts", {}))
        s.sets = {k: set(v) for k, v in d.get("sets", {}).items()}
        return s

    def summary(self, max_set=40):
        out = {"counts": dict(sorted(self.counts.items()))}
        sets = {}
        for k, v in sorted(self.sets.items()):
            vals = sorted(v)
            sets[k] = {"distinct": len(vals), "values": vals[:max_set]}
        out["distinct_seen"] = sets
        return out
